"""C12 -- grid distances equal closed-form geometry and are metrics; nearest
node lookup, rectangular grids, cos-lat weights and area / distance weighted
measures."""
import itertools
import math

import numpy as np

from pvm.ref import geometry as ref

ABS = 2.0 ** -10          # stated absolute angular error bound
REL = 2.0 ** -17          # 8 x the stated "near 2^-20" relative error
WTOL = 2.0 ** -20         # cos(lat) of a float32 latitude, float32 result
MTOL = 2e-5               # float32 accumulation in the link-distance sums

META = dict(
    shards={"quick": 8, "thorough": 16},
    budget={"quick": 40, "thorough": 420},
    timeout={"quick": 600, "thorough": 3000},
    rule=("cases: seeded coordinate sets of 1..300 nodes in the classes "
          "generic / pole / antimeridian (+-180, 0/360) / coincident (exact "
          "and 1e-5 deg apart) / antipodal / regular lat x lon / mixed for "
          "GeoGrid; Euclidean sets of dimension 1..5 (normal, integer "
          "lattice, duplicates, collinear); every pair and every triple of "
          "each set is compared. Oracle: float64 atan2 (Vincenty) "
          "great-circle distance / Euclidean norm of the float32-rounded "
          "coordinates. Bounds: |err| < 2^-10 (angular, everywhere), "
          "relative error < 2^-17 for 0.5 <= d <= pi-0.5 and for Euclidean "
          "distances, exact symmetry, diagonal 0 (Euclid) / < 2^-10, range "
          "[0, float32(pi)], triangle excess <= 3*2^-10 (angular) / relative "
          "2^-17 per term (Euclid). node_number: reference distance of the "
          "returned node <= minimum + 2*2^-10 (angular; 2*2^-17 relative in "
          "mid range) / *(1+1e-9) (Euclid, float64 code). Rect grids: all "
          "axis-length tuples over {1,2,3} for 1..5 axes + random axes with "
          "duplicates/unsorted values: columns == Cartesian product as "
          "multiset, documented lat-major order for 2 axes. GeoNetwork: "
          "weights == cos / cos^2 of own latitude (2^-20; surface and "
          "irrigation, via constructor and set_node_weight_type), in/out/"
          "total AWC, (in/out)average / max / total link distance (also "
          "geometry corrected), (in/out)connectivity weighted distance, "
          "neighbour AWC and the link distance histogram == defining "
          "float64 sums over A, the library's cos lat and its own D (rtol "
          "2e-5); measures documented as ignoring direction must equal "
          "their value on the undirected version; random (un)directed "
          "adjacency with densities 0..1 on 2..60 nodes; grids whose "
          "sum(cos lat) < 0.01 N are skipped for the normalised measures. "
          "non-trivial = distinct "
          "coordinate set with >= 2 distinct positions (distance sets), "
          "distinct axes tuple with >= 2 axes of length >= 2 (rect), "
          "distinct (grid, adjacency) with >= 1 link and non-constant "
          "latitude (network)."),
    floors={"quick": {"angular_sets": 400, "angular_pairs": 2000000,
                      "hostile_pairs": 150000, "midrange_pairs": 1500000,
                      "triangle_sets": 600, "lookup_queries": 5000,
                      "euclid_sets": 300, "euclid_dim1": 50,
                      "euclid_dim2": 50, "euclid_dim3": 50,
                      "euclid_dim4": 50, "euclid_dim5": 50,
                      "rect_grids": 600, "rect_geo_grids": 150,
                      "weights_checked": 400,
                      "link_measures_checked": 4000,
                      "histograms_checked": 400},
            "thorough": {"angular_sets": 6000, "angular_pairs": 40000000,
                         "hostile_pairs": 3000000,
                         "midrange_pairs": 30000000,
                         "triangle_sets": 9000, "lookup_queries": 75000,
                         "euclid_sets": 4000, "euclid_dim1": 500,
                         "euclid_dim2": 500, "euclid_dim3": 500,
                         "euclid_dim4": 500, "euclid_dim5": 500,
                         "rect_grids": 1500, "rect_geo_grids": 700,
                         "weights_checked": 6000,
                         "link_measures_checked": 55000,
                         "histograms_checked": 5000}},
    exhaustive_subspaces={
        "quick": ["rect grids: all axis-length tuples over {1,2,3}, 1..5 axes"
                  " (363)"],
        "thorough": ["rect grids: all axis-length tuples over {1,2,3}, 1..5 "
                     "axes (363)"]},
    assumptions=[
        "coordinates are rounded to float32 before the reference is "
        "evaluated (the library stores float32)",
        "upper end of the angular range is float32(pi) = arccos(float32(-1))",
        "link-distance measures are compared with sums over the library's "
        "own distance matrix (itself checked against the closed form)",
        "area_weighted_connectivity of a directed network = in + out "
        "(library convention)",
        "Euclidean coordinates have |x| <= 1e4 and differences that are 0 or "
        ">= 1e-9 (no float32 under/overflow of squares)"],
    technique="differential test against closed-form float64 geometry",
    level_text=("every pair / triple / query of the generated coordinate "
                "sets met the stated error bounds, metric axioms and "
                "defining sums; no claim beyond the sampled sets"),
    level_note=("trusted: numpy float64 trigonometry, the atan2 great-circle "
                "form (cross-checked against the chord form at start-up)"),
)

META["rule"] += (
    " " + 'Added after the second round of seeded changes: rectangular-grid axes are passed as float64 / float32 / integer arrays or lists (mixed across axes).')

META["rule"] += (
    " " + 'Added after the third round: node weights after switching the type back, after hand-set weights followed by the same type, and on ClimateNetwork objects of the same grid (constructor, set_threshold, set_link_density).')

META["rule"] += (
    " " + 'Added after the sixth round: the distance-weighted measures are evaluated before distance() is read in half of the cases.')

META["rule"] += (
    " " + 'Added after the seventh round: whole-numbered lookup queries next to nodes as int / int8 / uint8 / int16 / int64 / float32 scalars.')

META["rule"] += (
    " " + 'Added after the eighth round: node weights of ClimateNetwork and CoupledClimateNetwork (two grids) built on the same coordinates.')

META["rule"] += (
    " " + 'Added in the continuation session: the grid\'s own account of its geometry (node_coordinates, grid(), boundaries() == the coordinates and their extent); geometric_distance_distribution puts every ordered pair of distinct nodes into the bin of its closed-form distance (margin 4*2^-17 of the largest distance at bin edges); area-weighted frequency distributions (geographical_distribution and the (in/out) AWC distributions, plain and cumulative, 1..8 bins, sequences with ties): every partial sum of the histogram is the cos-lat share of the nodes with value <= some occurring value (2e-6), total 1, smallest values in the first bin - independent of the binning convention; weight type None (unit weights) from the constructor, over hand-assigned weights and before a geographic type; node weights and recorded weight type of data-derived climate networks (Tsonis, Havlin, Hilbert, Spearman; types None / surface / irrigation) after the constructor, after the setter that regenerates the network and after set_threshold; region_indices == point-in-polygon of the (lon, lat) point of each node for random rectangles (either orientation, optionally closed explicitly, half of them centred on a node) and triangles in the grid\'s own longitude convention, judged on nodes at least 1e-3 deg from every edge line.')
for _t, _f in (("quick", {"position_queries": 1500, "boundary_queries": 500,
                          "distance_distributions": 400,
                          "area_weighted_distributions": 2000,
                          "unit_weight_type_sequences": 400,
                          "regenerated_weights_checked": 200,
                          "region_queries": 1500,
                          "region_nodes_inside": 4000}),
               ("thorough", {"position_queries": 6000,
                             "boundary_queries": 2000,
                             "distance_distributions": 1500,
                             "area_weighted_distributions": 12000,
                             "unit_weight_type_sequences": 2500,
                             "regenerated_weights_checked": 1200,
                             "region_queries": 20000,
                             "region_nodes_inside": 60000})):
    META["floors"][_t].update(_f)

STYLES = ["generic", "pole", "antimeridian", "coincident", "antipodal",
          "regular", "mixed"]


# --------------------------------------------------------------------------
# generators
# --------------------------------------------------------------------------

def _sphere(r, n):
    lat = np.degrees(np.arcsin(r.uniform(-1, 1, n)))
    lon = r.uniform(-180, 180, n)
    return lat, lon


def gen_latlon(r, n, style):
    lat, lon = _sphere(r, n)
    if style == "generic":
        if r.random() < 0.3:
            lon = r.uniform(0, 360, n)
    elif style == "pole":
        m = r.random(n) < 0.6
        lat[m] = r.choice([90.0, -90.0, 89.999, -89.999, 89.9999999, 90.0],
                          m.sum())
    elif style == "antimeridian":
        m = r.random(n) < 0.7
        lon[m] = r.choice([180.0, -180.0, 179.99999, -179.99999, 0.0, 360.0,
                           359.99999, 1e-5, -1e-5], m.sum())
        if r.random() < 0.5:
            lat[m] = r.choice([0.0, 30.0, -45.0, 60.0], m.sum())
    elif style == "coincident":
        k = max(1, n // 3)
        src = r.integers(0, k, n)
        lat, lon = lat[src], lon[src]
        jit = r.random(n) < 0.3
        lat = lat + jit * r.choice([1e-5, -1e-5, 1e-4, 3e-3], n)
        lat = np.clip(lat, -90, 90)
        if r.random() < 0.5:      # same point written 0/360 or -180/180
            lon = np.where(r.random(n) < 0.3, lon + 360.0, lon)
            lon = np.where(lon > 360, lon - 360, lon)
    elif style == "antipodal":
        h = n // 2
        lat[h:2 * h] = -lat[:h]
        lon[h:2 * h] = np.where(lon[:h] > 0, lon[:h] - 180.0, lon[:h] + 180.0)
        jit = r.random(n) < 0.3
        lat = np.clip(lat + jit * r.choice([1e-5, -1e-4, 2e-3], n), -90, 90)
    elif style == "regular":
        nlat = int(r.integers(1, max(2, int(math.sqrt(n)) + 2)))
        nlon = max(1, n // nlat)
        la = np.linspace(-90, 90, nlat) if nlat > 1 else np.array([0.0])
        if r.random() < 0.5:
            lo = np.linspace(0, 360, nlon)
        else:
            lo = np.linspace(-180, 180, nlon, endpoint=bool(r.integers(0, 2)))
        lat = np.repeat(la, len(lo))
        lon = np.tile(lo, len(la))
    else:   # mixed
        parts = [gen_latlon(r, max(1, n // 4), s)
                 for s in ("pole", "antimeridian", "coincident", "antipodal")]
        lat = np.concatenate([p[0] for p in parts])[:n]
        lon = np.concatenate([p[1] for p in parts])[:n]
    if r.random() < 0.25:     # coarse coordinates: many exact coincidences
        lat = np.round(lat / 15) * 15
        lon = np.round(lon / 30) * 30
    return np.asarray(lat, float), np.asarray(lon, float)


def pick_n(r, k):
    c = k % 6
    if c < 2:
        return int(r.integers(1, 9))
    if c < 5:
        return int(r.integers(9, 61))
    return int(r.integers(61, 301))


def pair_class(lat, lon, i, j, dref):
    """Input class of the offending pair, computed from the event."""
    if i == j:
        return "self"
    if dref < 2 * ABS:
        return "coincident"
    if dref > math.pi - 2 * ABS:
        return "antipodal"
    if max(abs(lat[i]), abs(lat[j])) >= 89.99:
        return "pole"
    for v in (lon[i], lon[j]):
        if abs(abs(v) - 180) <= 0.01 or abs(v - 360) <= 0.01 or abs(v) <= 1e-4:
            return "antimeridian"
    return "generic"


def gen_euclid(r, dim, n, style):
    if style == "lattice":
        X = r.integers(-20, 21, (dim, n)).astype(float)
    elif style == "duplicates":
        k = max(1, n // 3)
        X = r.normal(size=(dim, k))[:, r.integers(0, k, n)] * \
            10.0 ** r.integers(-2, 4)
    elif style == "collinear":
        t = r.normal(size=n)
        X = np.outer(r.normal(size=dim), t) + r.normal(size=(dim, 1))
    elif style == "dyadic":
        X = r.integers(-2 ** 12, 2 ** 12, (dim, n)) / 2.0 ** 6
    else:
        X = r.normal(size=(dim, n)) * 10.0 ** r.integers(-2, 4)
    return np.clip(X, -1e4, 1e4)


# --------------------------------------------------------------------------
# monitors
# --------------------------------------------------------------------------

def _where(M):
    i, j = np.unravel_index(int(np.argmax(M)), M.shape)
    return int(i), int(j)


def check_angular(ctx, GeoGrid, lat, lon, style, cid):
    n = len(lat)
    case = {"lat": lat, "lon": lon, "style": style}
    ok, g = ctx.call(GeoGrid, np.arange(2), lat, lon, silence_level=3)
    if not ok:
        ctx.violation(f"GeoGrid:constructor-raises:{type(g).__name__}",
                      {**case, "exc": repr(g)}, cid)
        return None
    ok, D = ctx.call(g.angular_distance)
    ctx.evals()
    if not ok:
        ctx.violation(f"angular_distance:raises:{type(D).__name__}:{style}",
                      {**case, "exc": repr(D)}, cid)
        return None
    ctx.count("angular_sets")
    D = np.asarray(D)
    L = D.astype(np.float64)
    R = ref.great_circle_matrix(lat, lon)
    la32, lo32 = ref.f32(lat), ref.f32(lon)
    if D.shape != (n, n):
        ctx.violation("angular_distance:shape", {**case, "shape": D.shape},
                      cid)
        return None
    if not np.isfinite(L).all():
        i, j = _where(~np.isfinite(L))
        ctx.violation("angular_distance:not-finite:" +
                      pair_class(la32, lo32, i, j, R[i, j]),
                      {**case, "pair": (i, j)}, cid)
        return None
    ctx.count("angular_pairs", n * n)
    hostile = int(((R < 1e-3) | (R > math.pi - 1e-3)).sum() - n)
    ctx.count("hostile_pairs", max(0, hostile))
    if len({(a, b) for a, b in zip(la32.tolist(), lo32.tolist())}) >= 2:
        ctx.nontrivial(("ang", la32.tobytes().hex(), lo32.tobytes().hex()))
    # exact symmetry
    if not np.array_equal(D, D.T):
        i, j = _where(D != D.T)
        ctx.violation("angular_distance:asymmetric:" +
                      pair_class(la32, lo32, i, j, R[i, j]),
                      {**case, "pair": (i, j), "Dij": D[i, j],
                       "Dji": D[j, i]}, cid)
    # range
    if (L < 0).any() or (L > ref.PI32).any():
        i, j = _where((L < 0) | (L > ref.PI32))
        ctx.violation("angular_distance:out-of-range:" +
                      pair_class(la32, lo32, i, j, R[i, j]),
                      {**case, "pair": (i, j), "D": L[i, j]}, cid)
    # absolute error everywhere
    E = np.abs(L - R)
    off = ~np.eye(n, dtype=bool)
    ctx.maxstat("angular_abs_err", E.max())
    ctx.maxstat("angular_self_distance", np.abs(np.diag(L)).max())
    if n > 1:
        ctx.maxstat("angular_abs_err_offdiag", E[off].max())
    if (np.diag(L) >= ABS).any():
        i = int(np.argmax(np.diag(L)))
        ctx.violation("angular_distance:self-distance>=2^-10",
                      {**case, "node": i, "D": L[i, i]}, cid)
    Eo = np.where(off, E, 0.0)
    if (Eo >= ABS).any():
        i, j = _where(Eo)
        ctx.violation("angular_distance:abs-error>=2^-10:" +
                      pair_class(la32, lo32, i, j, R[i, j]),
                      {**case, "pair": (i, j), "lib": L[i, j],
                       "ref": R[i, j], "latlon_i": (la32[i], lo32[i]),
                       "latlon_j": (la32[j], lo32[j])}, cid)
    # relative error in the mid range
    mid = (R >= 0.5) & (R <= math.pi - 0.5)
    if mid.any():
        ctx.count("midrange_pairs", int(mid.sum()))
        rel = np.where(mid, E / np.where(mid, R, 1.0), 0.0)
        ctx.maxstat("angular_rel_err_midrange", rel.max())
        if (rel >= REL).any():
            i, j = _where(rel)
            ctx.violation("angular_distance:rel-error>=2^-17:" +
                          pair_class(la32, lo32, i, j, R[i, j]),
                          {**case, "pair": (i, j), "lib": L[i, j],
                           "ref": R[i, j]}, cid)
    # triangle inequality
    if n >= 3:
        ex, arg = ref.triangle_excess(L)
        ctx.count("triangle_sets")
        ctx.count("triangles", n * n * n)
        ctx.maxstat("angular_triangle_excess", ex)
        if ex > 3 * ABS:
            i, j, k = arg
            ctx.violation("angular_distance:triangle-excess>3*2^-10:" +
                          pair_class(la32, lo32, i, j, R[i, j]),
                          {**case, "ijk": arg, "Dij": L[i, j],
                           "Dik": L[i, k], "Dkj": L[k, j]}, cid)
    # distance() is the angular distance
    ok, D2 = ctx.call(g.distance)
    ctx.evals()
    if not ok or not np.array_equal(np.asarray(D2), D):
        ctx.violation("GeoGrid.distance:ne-angular_distance",
                      {**case, "exc": None if ok else repr(D2)}, cid)
    if len(ctx.samples) < 2 and n <= 6:
        ctx.sample({"kind": "angular", "lat": la32, "lon": lo32,
                    "max_abs_err": float(E.max())})
    return g, R


def check_lookup_geo(ctx, g, lat, lon, cid, nq):
    r = ctx.rng("q", cid)
    n = len(lat)
    qs = []
    for q in range(nq):
        c = q % 5
        if c == 0:
            i = int(r.integers(0, n))
            qs.append((float(np.float32(lat[i])), float(np.float32(lon[i])),
                       "node"))
        elif c == 1:
            qs.append((float(r.choice([90.0, -90.0])),
                       float(r.uniform(-180, 180)), "pole"))
        elif c == 2:
            qs.append((float(r.uniform(-90, 90)),
                       float(r.choice([180.0, -180.0, 0.0, 360.0, 179.999,
                                       -179.999, 359.999])), "antimeridian"))
        else:
            la, lo = _sphere(r, 1)
            qs.append((float(la[0]), float(lo[0]) if c == 3 else
                       float(lo[0]) % 360.0, "generic"))
    # whole-numbered query points close to a node, in the numeric type a
    # caller may hold them in (Python int, NumPy integers of 8 .. 64 bit,
    # float32)
    for q in range(max(3, nq)):
        i = int(r.integers(0, n))
        qa, qo = int(np.round(lat[i])), int(np.round(lon[i]))
        cands = [("int", int), ("float32", np.float32), ("int64", np.int64),
                 ("int16", np.int16)]
        if -128 <= qa <= 127 and -128 <= qo <= 127:
            cands += [("int8", np.int8)] * 3
        if 0 <= qa <= 255 and 0 <= qo <= 255:
            cands += [("uint8", np.uint8)] * 3
        nm, ty = cands[int(r.integers(0, len(cands)))]
        qs.append((ty(qa), ty(qo), "whole-number:" + nm))
        ctx.count("lookup_query_type:" + nm)
    for qlat, qlon, qc in qs:
        ok, idx = ctx.call(g.node_number, qlat, qlon)
        ctx.evals()
        qlat, qlon = float(qlat), float(qlon)
        if not ok:
            ctx.violation(f"GeoGrid.node_number:raises:{type(idx).__name__}"
                          f":{qc}", {"lat": lat, "lon": lon, "q": (qlat, qlon),
                                     "exc": repr(idx)}, cid)
            continue
        ctx.count("lookup_queries")
        Rq = ref.great_circle_to_point(lat, lon, qlat, qlon)
        idx = int(idx)
        if not 0 <= idx < n:
            ctx.violation(f"GeoGrid.node_number:index-out-of-range:{qc}",
                          {"q": (qlat, qlon), "idx": idx}, cid)
            continue
        exc = float(Rq[idx] - Rq.min())
        ctx.maxstat("lookup_angular_excess", exc)
        tol = 2 * ABS
        if 0.5 <= Rq.min() and Rq[idx] <= math.pi - 0.5:
            tol = REL * (Rq[idx] + Rq.min())
            ctx.count("lookup_midrange")
        if exc > tol:
            ctx.violation(f"GeoGrid.node_number:not-nearest:{qc}",
                          {"lat": lat, "lon": lon, "q": (qlat, qlon),
                           "returned": idx, "d_returned": Rq[idx],
                           "nearest": int(Rq.argmin()), "d_min": Rq.min()},
                          cid)


def check_euclid(ctx, Grid, X, style, cid, g=None, tag="Grid"):
    dim, n = X.shape
    case = {"X": X, "style": style}
    if g is None:
        # the coordinates in the numeric type the caller holds them in
        # (single precision when that loses nothing); the caller's buffer is
        # refilled afterwards - the grid keeps the coordinates it was given
        Xc = np.array(X, dtype=np.float64)
        if np.array_equal(Xc.astype(np.float32).astype(np.float64), Xc) \
                and (dim + n) % 2:
            Xc = Xc.astype(np.float32)
            ctx.count("euclid_float32_inputs")
        tc = np.arange(2, dtype=Xc.dtype)
        ok, g = ctx.call(Grid, tc, Xc, silence_level=3)
        if not ok:
            ctx.violation(f"Grid:constructor-raises:{type(g).__name__}",
                          {**case, "exc": repr(g)}, cid)
            return None
        Xc *= 3
        Xc += 1
        tc += 5
        kept = np.array([np.asarray(g.sequence(k), dtype=np.float64)
                         for k in range(dim)]) if dim else np.zeros((0, n))
        if kept.shape != (dim, n) or not np.array_equal(
                kept, ref.f32(X).astype(np.float64)):
            ctx.violation("Grid:coordinates-follow-the-caller's-buffer",
                          {**case, "kept": kept}, cid)
    ok, D = ctx.call(g.euclidean_distance)
    ctx.evals()
    if not ok:
        ctx.violation(f"euclidean_distance:raises:{type(D).__name__}:"
                      f"dim{dim}", {**case, "exc": repr(D)}, cid)
        return None
    ctx.count("euclid_sets")
    ctx.count(f"euclid_dim{dim}")
    D = np.asarray(D)
    L = D.astype(np.float64)
    R = ref.euclid_matrix(X)
    X32 = ref.f32(X)
    if D.shape != (n, n) or not np.isfinite(L).all():
        ctx.violation("euclidean_distance:shape-or-not-finite",
                      {**case, "shape": D.shape}, cid)
        return None
    ctx.count("euclid_pairs", n * n)
    if len({tuple(c) for c in X32.T.tolist()}) >= 2:
        ctx.nontrivial(("euc", dim, X32.tobytes().hex()))
    if not np.array_equal(D, D.T):
        ctx.violation("euclidean_distance:asymmetric",
                      {**case, "pair": _where(D != D.T)}, cid)
    if (np.diag(L) != 0).any():
        ctx.violation("euclidean_distance:self-distance!=0",
                      {**case, "diag_max": np.abs(np.diag(L)).max()}, cid)
    if (L < 0).any():
        ctx.violation("euclidean_distance:negative", case, cid)
    zero = R == 0
    if (L[zero] != 0).any():
        ctx.violation("euclidean_distance:coincident-nodes-nonzero",
                      {**case, "max": L[zero].max()}, cid)
    if (~zero).any():
        rel = np.where(zero, 0.0, np.abs(L - R) / np.where(zero, 1.0, R))
        ctx.maxstat("euclid_rel_err", rel.max())
        if (rel >= REL).any():
            i, j = _where(rel)
            ctx.violation(f"euclidean_distance:rel-error>=2^-17:dim{dim}",
                          {**case, "pair": (i, j), "lib": L[i, j],
                           "ref": R[i, j]}, cid)
    if n >= 3:
        ex, arg = ref.triangle_excess_rel(L, REL)
        ctx.count("triangle_sets")
        ctx.count("triangles", n * n * n)
        ctx.maxstat("euclid_triangle_excess_rel", ex)
        if ex > 0:
            i, j, k = arg
            ctx.violation(f"euclidean_distance:triangle-violated:dim{dim}",
                          {**case, "ijk": arg, "Dij": L[i, j], "Dik": L[i, k],
                           "Dkj": L[k, j]}, cid)
    if tag == "Grid":
        ok, D2 = ctx.call(g.distance)
        ctx.evals()
        if not ok or not np.array_equal(np.asarray(D2), D):
            ctx.violation("Grid.distance:ne-euclidean_distance", case, cid)
    if len(ctx.samples) < 4 and n <= 5 and tag == "Grid":
        ctx.sample({"kind": "euclid", "X": X32, "D": L})
    return g


def check_region(ctx, g, lat, lon, cid):
    """`region_indices`: a node is selected iff its (lon, lat) point lies in
    the polygon given as lon, lat, lon, lat, ... (plane geometry).  Judged for
    rectangles and triangles, on the nodes at least 1e-3 deg away from the
    polygon's edges (both ways)."""
    r = ctx.rng("region", cid)
    la = ref.f32(lat).astype(np.float64)
    lo = ref.f32(lon).astype(np.float64)
    m = 1e-3
    lo_min, lo_max = (0.0, 360.0) if lo.min() >= 0 else (-180.0, 180.0)
    for shape in ("rect", "tri"):
        if shape == "rect":
            x0, x1 = np.sort(r.uniform(lo_min, lo_max, 2))
            y0, y1 = np.sort(r.uniform(-90, 90, 2))
            if r.random() < 0.5 and len(la) > 1:
                # centred on a node so that something is inside
                i = int(r.integers(0, len(la)))
                x0, x1 = lo[i] - r.uniform(1, 40), lo[i] + r.uniform(1, 80)
                y0, y1 = la[i] - r.uniform(1, 20), la[i] + r.uniform(1, 10)
                # stay in the grid's own longitude convention (a negative
                # polygon longitude is remapped by +360 on a 0..360 grid)
                x0, x1 = max(x0, lo_min), min(x1, lo_max)
            P = np.array([[x0, y0], [x0, y1], [x1, y1], [x1, y0]])
            if r.random() < 0.5:
                P = P[::-1]
        else:
            P = np.column_stack([r.uniform(lo_min, lo_max, 3),
                                 r.uniform(-90, 90, 3)])
        E = np.roll(P, -1, axis=0) - P
        L = np.hypot(E[:, 0], E[:, 1])
        if L.min() < 1.0:
            continue
        area2 = np.sum(P[:, 0] * np.roll(P[:, 1], -1)
                       - np.roll(P[:, 0], -1) * P[:, 1])
        if abs(area2) < 1.0:
            continue
        sg = 1.0 if area2 > 0 else -1.0
        # signed distance of every node to every edge line (convex polygon)
        d = np.array([sg * (E[k, 0] * (la - P[k, 1])
                            - E[k, 1] * (lo - P[k, 0])) / L[k]
                      for k in range(len(P))])
        inside = (d > m).all(axis=0)
        outside = (d < -m).any(axis=0)
        poly = P.reshape(-1).copy()
        if r.random() < 0.3:
            poly = np.concatenate([poly, poly[:2]])   # explicitly closed
        ok, sel = ctx.call(g.region_indices, poly)
        ctx.evals()
        if not ok:
            ctx.violation(f"region_indices:raises:{type(sel).__name__}",
                          {"lat": lat, "lon": lon, "region": poly,
                           "exc": repr(sel)}, cid)
            continue
        sel = np.asarray(sel)
        ctx.count("region_queries")
        ctx.count("region_nodes_judged", int(inside.sum() + outside.sum()))
        ctx.count("region_nodes_inside", int(inside.sum()))
        if sel.shape != la.shape or (sel[inside] != 1).any() \
                or (sel[outside] != 0).any():
            bad = np.flatnonzero((inside & (sel != 1)) | (outside & (sel != 0))
                                 ) if sel.shape == la.shape else []
            ctx.violation(f"region_indices:ne-point-in-polygon:{shape}",
                          {"lat": lat, "lon": lon, "region": poly,
                           "nodes": bad[:5], "selected": sel}, cid)


def check_positions(ctx, g, X, cid):
    """The grid's own account of where its nodes are (`node_coordinates`,
    `grid()`, `boundaries()`) is the geometry the distances are taken from,
    and `geometric_distance_distribution` is the distribution of exactly those
    pairwise distances: every ordered pair of distinct nodes falls into the
    bin that contains its distance."""
    dim, n = X.shape
    X32 = ref.f32(X).astype(np.float64)
    case = {"X": X}
    r = ctx.rng("pos", cid)
    for i in sorted({0, n - 1, int(r.integers(0, n))}):
        ok, c = ctx.call(g.node_coordinates, i)
        ctx.evals()
        if not ok:
            ctx.violation(f"Grid.node_coordinates:raises:{type(c).__name__}",
                          {**case, "i": i, "exc": repr(c)}, cid)
            continue
        ctx.count("position_queries")
        c = np.asarray(c, dtype=np.float64)
        if c.shape != (dim,) or not np.array_equal(c, X32[:, i]):
            ctx.violation("Grid.node_coordinates:not-the-node's-position",
                          {**case, "i": i, "returned": c}, cid)
    ok, G = ctx.call(g.grid)
    ctx.evals()
    if not ok or not np.array_equal(
            np.asarray(G["space"], dtype=np.float64), X32):
        ctx.violation("Grid.grid:space-ne-positions", case, cid)
    ok, B = ctx.call(g.boundaries)
    ctx.evals()
    if not ok:
        ctx.violation(f"Grid.boundaries:raises:{type(B).__name__}", case, cid)
    else:
        ctx.count("boundary_queries")
        lo = np.asarray(B["space_min"], dtype=np.float64)
        hi = np.asarray(B["space_max"], dtype=np.float64)
        Xd = np.asarray(X, dtype=np.float64)
        tol = 2.0 ** -20 * np.maximum(1e-30, np.abs(Xd).max(axis=1))
        if lo.shape != (dim,) or hi.shape != (dim,) \
                or (np.abs(lo - Xd.min(axis=1)) > tol).any() \
                or (np.abs(hi - Xd.max(axis=1)) > tol).any():
            ctx.violation("Grid.boundaries:ne-extent-of-positions",
                          {**case, "min": lo, "max": hi}, cid)
        if B["time_min"] != 0 or B["time_max"] != 1:
            ctx.violation("Grid.boundaries:time-extent",
                          {**case, "B": repr(B)}, cid)
    if n < 2:
        return
    R = ref.euclid_matrix(X)
    if R.max() <= 0:
        return
    nb = int(r.integers(1, 12))
    ok, res = ctx.call(g.geometric_distance_distribution, nb)
    ctx.evals()
    if not ok:
        ctx.violation("geometric_distance_distribution:raises:"
                      f"{type(res).__name__}",
                      {**case, "n_bins": nb, "exc": repr(res)}, cid)
        return
    ctx.count("distance_distributions")
    dist, lbb = (np.asarray(v, dtype=np.float64) for v in res)
    dmax = R.max()
    edges = np.linspace(0.0, dmax, nb + 1)
    m = REL * 4 * dmax
    off = ~np.eye(n, dtype=bool)
    Ro = R[off]
    pairs = float(n * (n - 1))
    bad = dist.shape != (nb,) or len(lbb) not in (nb, nb + 1) \
        or abs(dist.sum() - 1) > 1e-9 \
        or (np.abs(lbb - edges[:len(lbb)]) > m).any()
    if not bad:
        for b in range(nb):
            a, z = edges[b], edges[b + 1]
            last = b == nb - 1
            sure = ((Ro >= a + m) & (Ro < z - m)).sum() if not last \
                else (Ro >= a + m).sum()
            may = ((Ro >= a - m) & (Ro < z + m)).sum() if not last \
                else (Ro >= a - m).sum()
            c = dist[b] * pairs
            if not sure - 1e-6 <= c <= may + 1e-6:
                bad = True
                case = {**case, "bin": b, "lib_pairs": c, "sure": int(sure),
                        "possible": int(may)}
                break
    if bad:
        ctx.violation("geometric_distance_distribution:ne-distribution-of-"
                      "pair-distances",
                      {**case, "n_bins": nb, "dist": dist, "lbb": lbb}, cid)


def check_lookup_euclid(ctx, g, X, cid, nq):
    r = ctx.rng("qe", cid)
    dim, n = X.shape
    X32 = ref.f32(X)
    scale = max(1e-3, float(np.abs(X32).max()))
    for q in range(nq):
        c = q % 3
        if c == 0:
            x = X32[:, int(r.integers(0, n))].copy()
            qc = "node"
        elif c == 1 and n >= 2:
            i, j = r.integers(0, n, 2)
            x = 0.5 * (X32[:, i] + X32[:, j]) + r.normal(size=dim) * scale \
                * 1e-3
            qc = "between"
        else:
            x = r.normal(size=dim) * scale * 1.5
            qc = "generic"
        ok, idx = ctx.call(g.node_number, tuple(float(v) for v in x))
        ctx.evals()
        if not ok:
            ctx.violation(f"Grid.node_number:raises:{type(idx).__name__}",
                          {"X": X, "q": x, "exc": repr(idx)}, cid)
            continue
        ctx.count("lookup_queries")
        Rq = ref.euclid_to_point(X, x)
        idx = int(idx)
        if not 0 <= idx < n or Rq[idx] > Rq.min() * (1 + 1e-9) + 1e-300:
            ctx.violation(f"Grid.node_number:not-nearest:{qc}",
                          {"X": X, "q": x, "returned": idx,
                           "nearest": int(Rq.argmin()),
                           "d_returned": Rq[idx] if 0 <= idx < n else None,
                           "d_min": Rq.min()}, cid)


def as_given(axes, r):
    """The axes as a caller may hold them: per axis a float64 / float32 array,
    an integer array or a plain list (integers where the values allow)."""
    out, how = [], []
    for a in axes:
        whole = all(float(v).is_integer() for v in a)
        forms = ["f8", "f8", "f4", "list"] + (["i8", "i4", "intlist"]
                                               if whole else [])
        f = forms[int(r.integers(0, len(forms)))]
        how.append(f)
        if f == "list":
            out.append([float(v) for v in a])
        elif f == "intlist":
            out.append([int(v) for v in a])
        else:
            out.append(np.array(a, dtype=np.dtype(f)))
    return out, how


def check_rect(ctx, Grid, GeoGrid, axes, cid):
    d = len(axes)
    given, how = as_given(axes, ctx.rng("axfmt", cid))
    case = {"axes": axes, "axis_types": how}
    if len({h[0] for h in how}) > 1:
        ctx.count("rect_mixed_axis_types")
    want = ref.product_multiset(axes)
    nprod = len(want)
    ok, S = ctx.call(Grid.coord_sequence_from_rect_grid,
                     [a.copy() if isinstance(a, np.ndarray) else list(a)
                      for a in given])
    ctx.evals()
    if not ok:
        ctx.violation("coord_sequence_from_rect_grid:raises:"
                      f"{type(S).__name__}:dim{d}", {**case, "exc": repr(S)},
                      cid)
        return
    ctx.count("rect_grids")
    S = np.asarray(S, dtype=np.float64)
    if sum(len(a) >= 2 for a in axes) >= 2:
        ctx.nontrivial(("rect", tuple(tuple(a) for a in axes)))

    def cmp(S, name):
        if S.shape != (d, nprod):
            ctx.violation(f"{name}:shape", {**case, "shape": S.shape}, cid)
            return False
        got = sorted(tuple(float(v) for v in col)
                     for col in ref.f32(S).T.tolist())
        if got != want:
            ctx.violation(f"{name}:not-cartesian-product:dim{d}",
                          {**case, "got": got[:12], "want": want[:12]}, cid)
            return False
        return True

    cmp(S, "coord_sequence_from_rect_grid")
    ok, g = ctx.call(Grid.RegularGrid, np.arange(3),
                     [a.copy() if isinstance(a, np.ndarray) else list(a)
                      for a in given], silence_level=3)
    ctx.evals()
    if not ok:
        ctx.violation(f"Grid.RegularGrid:raises:{type(g).__name__}:dim{d}",
                      {**case, "exc": repr(g)}, cid)
    else:
        seqs = np.array([np.asarray(g.sequence(k), dtype=np.float64)
                         for k in range(d)])
        if g.N != nprod:
            ctx.violation("Grid.RegularGrid:N!=product-size",
                          {**case, "N": g.N}, cid)
        cmp(seqs, "Grid.RegularGrid")
    if d == 2:
        la = np.array(axes[0], dtype=float)
        lo = np.array(axes[1], dtype=float)
        gla, glo = [np.asarray(a) for a in given]
        ok, g2 = ctx.call(GeoGrid.RegularGrid, np.arange(3),
                          (gla.copy(), glo.copy()), silence_level=3)
        ok2, cs = ctx.call(GeoGrid.coord_sequence_from_rect_grid,
                           gla.copy(), glo.copy())
        ctx.evals(2)
        if not ok or not ok2:
            ctx.violation("GeoGrid.RegularGrid:raises",
                          {**case, "exc": repr(g2 if not ok else cs)}, cid)
            return
        ctx.count("rect_geo_grids")
        seqs = np.array([np.asarray(g2.lat_sequence(), dtype=np.float64),
                         np.asarray(g2.lon_sequence(), dtype=np.float64)])
        if cmp(seqs, "GeoGrid.RegularGrid"):
            # documented order: node = i_lat * n_lon + i_lon
            wl = np.repeat(ref.f32(la), len(lo))
            wo = np.tile(ref.f32(lo), len(la))
            if not (np.array_equal(seqs[0], wl) and
                    np.array_equal(seqs[1], wo)):
                ctx.violation("GeoGrid.RegularGrid:order-not-lat-major",
                              {**case, "lat_seq": seqs[0],
                               "lon_seq": seqs[1]}, cid)
            if not (np.array_equal(np.asarray(cs[0], float),
                                   np.repeat(gla.astype(float), len(lo))) and
                    np.array_equal(np.asarray(cs[1], float),
                                   np.tile(glo.astype(float), len(la)))):
                ctx.violation("GeoGrid.coord_sequence_from_rect_grid:"
                              "order-not-lat-major", case, cid)
            g = g2.grid()
            if not (np.array_equal(g["lat"], seqs[0].astype(np.float32)) and
                    np.array_equal(g["lon"], seqs[1].astype(np.float32)) and
                    np.array_equal(g["time"], np.arange(3))):
                ctx.violation("GeoGrid.grid:ne-sequences", case, cid)
        if len(ctx.samples) < 4:
            ctx.sample({"kind": "rect", "axes": axes, "lat_seq": seqs[0],
                        "lon_seq": seqs[1]})


def _close(a, b, rtol=MTOL, atol=1e-7):
    a = np.asarray(a, dtype=np.float64)
    b = np.asarray(b, dtype=np.float64)
    if a.shape != b.shape:
        return False
    return bool(np.all(np.abs(a - b) <= atol + rtol * np.abs(b)))


def _worst(v, w, rtol=MTOL, atol=1e-7):
    """Index of the entry that fails `_close` by the largest margin."""
    v = np.asarray(v, dtype=np.float64)
    w = np.asarray(w, dtype=np.float64)
    if v.shape != w.shape or v.ndim != 1:
        return -1
    return int(np.argmax(np.abs(v - w) - atol - rtol * np.abs(w)))


def check_network(ctx, GeoGrid, GeoNetwork, lat, lon, A, directed, wtype,
                  cid):
    n = len(lat)
    case = {"lat": lat, "lon": lon, "A": A, "directed": directed,
            "node_weight_type": wtype}
    dk = "directed" if directed else "undirected"
    ok, g = ctx.call(GeoGrid, np.arange(2), lat, lon, silence_level=3)
    if not ok:
        ctx.count("rejected")
        return
    ok, net = ctx.call(GeoNetwork, g, adjacency=A, directed=directed,
                       node_weight_type=wtype, silence_level=3)
    if not ok:
        ctx.violation(f"GeoNetwork:constructor-raises:{type(net).__name__}",
                      {**case, "exc": repr(net)}, cid)
        return
    cl = ref.cos_lat(lat)
    la32 = ref.f32(lat)
    if A.sum() > 0 and len(set(np.abs(la32).tolist())) > 1:
        ctx.nontrivial(("net", la32.tobytes().hex(),
                        ref.f32(lon).tobytes().hex(),
                        A.astype(np.int8).tobytes().hex(), directed))

    # --- node weights: cos / cos^2 of the node's own latitude ------------
    def weights(kind, how):
        w = net.node_weights
        ctx.evals()
        want = cl if kind == "surface" else cl ** 2
        if kind is None:         # documented: None = constant unit weights
            want = np.ones(n)
        if w is None or np.shape(w) != (n,):
            ctx.violation(f"node_weights:missing:{kind}",
                          {**case, "how": how, "w": repr(w)}, cid)
            return
        err = np.abs(np.asarray(w, dtype=np.float64) - want)
        ctx.maxstat("weight_abs_err", err.max())
        ctx.count("weights_checked")
        if (err > WTOL).any():
            i = int(err.argmax())
            other = "pole" if abs(la32[i]) >= 89.99 else "generic"
            ctx.violation(f"node_weights:ne-cos-own-latitude:{kind}:{other}",
                          {**case, "how": how, "node": i, "w": w[i],
                           "want": want[i]}, cid)
    weights(wtype, "constructor")
    # the climate networks are geographical networks too: same weights from
    # their own constructors (one grid, or two grids joined layer by layer)
    if n >= 2:
        from pyunicorn.climate import ClimateNetwork, CoupledClimateNetwork
        rs = ctx.rng("climsim", cid)
        S = rs.random((n, n))
        S = (S + S.T) / 2
        k1 = int(rs.integers(1, n))
        geo_net = net
        for how, mk in (
                ("ClimateNetwork", lambda: ClimateNetwork(
                    g, S, threshold=0.5, node_weight_type=wtype,
                    silence_level=3)),
                ("CoupledClimateNetwork", lambda: CoupledClimateNetwork(
                    GeoGrid(np.arange(2), lat[:k1], lon[:k1],
                            silence_level=3),
                    GeoGrid(np.arange(2), lat[k1:], lon[k1:],
                            silence_level=3),
                    S, threshold=0.5, node_weight_type=wtype,
                    silence_level=3))):
            okc, cn = ctx.call(mk)
            if okc and getattr(cn, "N", None) == n:
                net = cn
                weights(wtype, how)
                ctx.count("climate_network_weights_checked")
            elif not okc:
                ctx.count("climate_constructor_rejected")
        net = geo_net
    other = "irrigation" if wtype == "surface" else "surface"
    ok, _ = ctx.call(net.set_node_weight_type, other)
    if ok:
        weights(other, "set_node_weight_type")
    ok, _ = ctx.call(net.set_node_weight_type, wtype)
    if ok:
        weights(wtype, "set_node_weight_type(back)")
    # weights assigned by hand, then the geographic type requested again
    net.node_weights = np.linspace(1.0, 2.0, n)
    ok, _ = ctx.call(net.set_node_weight_type, wtype)
    if ok:
        weights(wtype, "custom-weights-then-same-type")
    # "no geographic weighting" (type None = unit weights): from the
    # constructor, requested again over weights assigned by hand, and left
    # for a geographic type afterwards
    ok0, net0 = ctx.call(GeoNetwork, g, adjacency=A, directed=directed,
                         node_weight_type=None, silence_level=3)
    if ok0:
        net_, net = net, net0
        weights(None, "constructor(None)")
        net.node_weights = np.linspace(1.0, 2.0, n)
        ok, _ = ctx.call(net.set_node_weight_type, None)
        if ok:
            weights(None, "custom-weights-then-None")
            ctx.count("unit_weight_type_sequences")
            if abs(float(net.total_node_weight) - n) > 1e-9 * n:
                ctx.violation("total_node_weight:stale-after-weight-type:None",
                              {**case, "total": net.total_node_weight}, cid)
        ok, _ = ctx.call(net.set_node_weight_type, wtype)
        if ok:
            weights(wtype, "None-then-type")
        net = net_
    # a network that comes back from a file format without node attributes
    # gets the geographic weights of its grid (default type: surface)
    if n >= 2 and A.sum() > 0:
        fmt = ["edgelist", "adjacency", "pajek"][int(A.sum()) % 3]
        ok, _ = ctx.call(net.set_node_weight_type, "surface")
        oks, e = ctx.call(net.save, ("c12net." + fmt, "c12net.grid"),
                          fileformat=fmt)
        if oks:
            okl, ln = ctx.call(GeoNetwork.Load,
                               ("c12net." + fmt, "c12net.grid"),
                               fileformat=fmt, silence_level=3)
            if okl and ln.N == n:
                net_, net = net, ln
                weights("surface", "Load:" + fmt)
                net = net_
                ctx.count("loaded_network_weights_checked")
        ctx.call(net.set_node_weight_type, wtype)
    # the climate-network classes on the same grid (default type: surface),
    # also after the network has been re-thresholded
    if n >= 2 and not directed:
        from pyunicorn.climate import ClimateNetwork
        S = (A + A.T > 0) * 0.8 + np.eye(n)
        okn, cn = ctx.call(ClimateNetwork, g, S, threshold=0.5,
                           silence_level=3)
        if okn:
            net_, net = net, cn
            weights("surface", "ClimateNetwork")
            ctx.call(cn.set_threshold, 0.9)
            weights("surface", "ClimateNetwork.set_threshold")
            ctx.call(cn.set_link_density, 0.5)
            weights("surface", "ClimateNetwork.set_link_density")
            net = net_
            ctx.count("climate_network_weights_checked")
    okc, clib = ctx.call(g.cos_lat)
    ctx.evals()
    if not okc or np.abs(np.asarray(clib, float) - cl).max() > WTOL:
        ctx.violation("GeoGrid.cos_lat:ne-cos-latitude", case, cid)

    # --- measures --------------------------------------------------------
    # The sums take the library's own float32 cos(lat) (just checked against
    # the closed form to 2^-20) and its own D as inputs, so that only the
    # accumulation differs; grids whose total area sum(cos lat) is lost in
    # that 2^-20 (all nodes at the poles) have no defined normalisation.
    if okc and np.shape(clib) == (n,):
        cl = np.asarray(clib, dtype=np.float64)
    if cl.sum() < 0.01 * n:
        ctx.count("degenerate_total_area_skipped")
        return
    # Other geographic measures may have been evaluated on the same network
    # and grid before (half of the cases): the distance matrix handed out
    # afterwards must still be the closed-form one.
    rw = ctx.rng("warm", cid)
    if rw.random() < 0.5:
        for mname in rw.permutation(["local_geographical_clustering",
                                     "average_link_distance",
                                     "max_link_distance",
                                     "link_distance_distribution"])[:2]:
            try:
                f = getattr(net, str(mname))
                ctx.call(f, 4) if "distribution" in str(mname) else \
                    ctx.call(f)
            except AttributeError:
                pass
        ctx.count("networks_used_before")
        ok2, Dchk = ctx.call(g.angular_distance)
        if ok2:
            Dr = ref.great_circle_matrix(la32.astype(np.float64),
                                         ref.f32(lon).astype(np.float64))
            bad = ~np.isfinite(np.asarray(Dchk, float)) | \
                (np.abs(np.asarray(Dchk, float) - Dr) >= 2.0 ** -10)
            if bad.any():
                ctx.violation("angular_distance:abs-error>=2^-10:"
                              "after-other-measures",
                              {**case, "at": np.argwhere(bad)[:3]}, cid)
    ok, D = ctx.call(g.angular_distance)
    if not ok:
        return
    D = np.asarray(D, dtype=np.float64)
    Au = np.maximum(A, A.T)
    recip = bool((A * A.T).sum() > 0) and directed
    want = {
        "inarea_weighted_connectivity": ref.awc_in(A, cl),
        "outarea_weighted_connectivity": ref.awc_out(A, cl),
        "area_weighted_connectivity":
            ref.awc_in(A, cl) + (ref.awc_out(A, cl) if directed else 0),
        "inaverage_link_distance": ref.avg_link_distance(A.T, D),
        "outaverage_link_distance": ref.avg_link_distance(A, D),
        "max_link_distance": ref.max_link_distance(Au, D),
        "inconnectivity_weighted_distance":
            ref.conn_weighted_distance(A.T, D, cl),
        "outconnectivity_weighted_distance":
            ref.conn_weighted_distance(A, D, cl),
        "average_link_distance": ref.avg_link_distance(Au, D),
        "connectivity_weighted_distance":
            ref.conn_weighted_distance(Au, D, cl),
    }
    undirected_family = ("average_link_distance",
                         "connectivity_weighted_distance")
    kwargs = {}
    if D.mean(axis=1).min() > 1e-3:
        want["inaverage_link_distance/gc"] = \
            ref.avg_link_distance(A.T, D, True)
        want["outaverage_link_distance/gc"] = \
            ref.avg_link_distance(A, D, True)
        want["average_link_distance/gc"] = ref.avg_link_distance(Au, D, True)
        kwargs = {"geometry_corrected": True}
    if not directed:
        want["intotal_link_distance"] = \
            want["inaverage_link_distance"] * ref.awc_in(A, cl)
        want["outtotal_link_distance"] = \
            want["outaverage_link_distance"] * ref.awc_out(A, cl)
        want["total_link_distance"] = \
            want["average_link_distance"] * ref.awc_in(A, cl)
    else:
        want["intotal_link_distance"] = \
            want["inaverage_link_distance"] * ref.awc_in(A, cl)
        want["outtotal_link_distance"] = \
            want["outaverage_link_distance"] * ref.awc_out(A, cl)
    for name, w in want.items():
        meth, _, gc = name.partition("/")
        if directed and meth in undirected_family:
            # The direction-free averages normalise by in+out degree on
            # directed networks (reciprocal links counted twice).  Whether
            # that is intended is not settled by the C12 statement (it only
            # requires the cos-lat weighting), so directed inputs are outside
            # this oracle; see DESIGN.md "observations outside the
            # properties".
            ctx.count("direction_free_measure_on_directed_skipped")
            continue
        ok, v = ctx.call(getattr(net, meth), **(kwargs if gc else {}))
        ctx.evals()
        if not ok:
            ctx.violation(f"{meth}:raises:{type(v).__name__}:{dk}",
                          {**case, "exc": repr(v)}, cid)
            continue
        ctx.count("link_measures_checked")
        if _close(v, w):
            continue
        v = np.asarray(v, dtype=np.float64)
        i = _worst(v, w)
        if meth.split("/")[0] in undirected_family and directed:
            # "does not use directionality information": must equal the
            # value on the undirected version of the network
            cls = "directed-reciprocal" if recip and i >= 0 and \
                (A[i] * A[:, i]).sum() > 0 else "directed"
            ctx.violation(f"{meth}:ne-undirected-version:{cls}",
                          {**case, "node": i, "lib": v, "want": w}, cid)
        else:
            ctx.violation(f"{meth}:ne-defining-sum:{dk}",
                          {**case, "node": i, "lib": v, "want": w,
                           "geometry_corrected": bool(gc)}, cid)
    # undirected-only extras
    if not directed:
        k = Au.sum(axis=1)
        awc = ref.awc_in(A, cl)
        wnb = np.zeros(n)
        wnb[k > 0] = (Au @ awc)[k > 0] / k[k > 0]
        ok, v = ctx.call(net.average_neighbor_area_weighted_connectivity)
        ctx.evals()
        if not ok or not _close(v, wnb):
            ctx.violation("average_neighbor_area_weighted_connectivity:"
                          "ne-defining-sum:undirected",
                          {**case, "lib": None if not ok else v,
                           "want": wnb, "exc": None if ok else repr(v)}, cid)
        ctx.count("link_measures_checked")
        if (k > 0).all():
            wmx = np.array([awc[Au[i] == 1].max() for i in range(n)])
            ok, v = ctx.call(net.max_neighbor_area_weighted_connectivity)
            ctx.evals()
            if not ok or not _close(v, wmx):
                ctx.violation("max_neighbor_area_weighted_connectivity:"
                              "ne-definition:undirected",
                              {**case, "lib": None if not ok else v,
                               "want": wmx}, cid)
            ctx.count("link_measures_checked")
    # area-weighted frequency distributions: whatever the binning, each bin
    # holds the cos-lat share of the nodes whose value falls into it, bins
    # are ordered by value, so every partial sum of the histogram is the
    # cos-lat share of "all nodes with value <= v" for some occurring v
    if cl.sum() > 1e-6:
        share = cl / cl.sum()
        rr = ctx.rng("geodist", cid)

        def area_hist(label, seq, res, cumulative):
            ctx.count("area_weighted_distributions")
            try:
                hist, _err, lbb = (np.asarray(x, dtype=np.float64)
                                   for x in res)
            except Exception as e:                  # noqa: BLE001
                ctx.violation(f"{label}:malformed-result",
                              {**case, "exc": repr(e)}, cid)
                return
            if cumulative:
                # cumulative from above: c[i] = sum_{j>=i} h[j]
                hist = hist - np.append(hist[1:], 0.0)
            order = np.argsort(seq, kind="stable")
            sv = seq[order]
            ps = np.concatenate([[0.0], np.cumsum(share[order])])
            ends = np.concatenate(
                [[0], np.flatnonzero(sv[1:] != sv[:-1]) + 1, [len(sv)]])
            P = ps[ends]
            cs = np.cumsum(hist)
            gap = np.abs(cs[:, None] - P[None, :]).min(axis=1)
            lo_share = share[seq == seq.min()].sum()
            # cos-lat in single precision (the pole comes out as -4.4e-8)
            tol = 2e-6
            if abs(cs[-1] - 1) > tol or (hist < -tol).any() \
                    or gap.max() > tol \
                    or hist[0] < lo_share - tol \
                    or abs(lbb[0] - seq.min()) > 1e-9 * max(1, abs(seq.min())):
                ctx.violation(f"{label}:ne-cos-lat-share-of-the-nodes-per-bin",
                              {**case, "seq": seq, "hist": hist, "lbb": lbb,
                               "cos_lat": cl, "cumulative": cumulative}, cid)

        kdeg = A.sum(axis=0).astype(np.float64)
        seqs = [("degree", kdeg),
                ("ties", rr.integers(0, 3, n).astype(np.float64)),
                ("generic", rr.normal(size=n))]
        lab, seq = seqs[int(rr.integers(0, 3))]
        nb = int(rr.integers(1, 9))
        if seq.max() > seq.min():
            for cum, meth in ((False, "geographical_distribution"),
                              (True, "geographical_cumulative_distribution")):
                ok, res = ctx.call(getattr(net, meth), seq.copy(), nb)
                ctx.evals()
                if not ok:
                    ctx.violation(f"{meth}:raises:{type(res).__name__}",
                                  {**case, "seq": seq, "n_bins": nb,
                                   "exc": repr(res)}, cid)
                    continue
                area_hist(f"{meth}:{lab}", seq, res, cum)
        fam = ["area_weighted_connectivity"] + (
            ["inarea_weighted_connectivity", "outarea_weighted_connectivity"]
            if directed else [])
        for base in fam:
            ok, v = ctx.call(getattr(net, base))
            if not ok:
                continue
            v = np.asarray(v, dtype=np.float64)
            if not v.max() > v.min():
                continue
            for cum, suffix in ((False, "_distribution"),
                                (True, "_cumulative_distribution")):
                ok, res = ctx.call(getattr(net, base + suffix), nb)
                ctx.evals()
                if not ok:
                    ctx.violation(f"{base}{suffix}:raises:"
                                  f"{type(res).__name__}",
                                  {**case, "n_bins": nb, "exc": repr(res)},
                                  cid)
                    continue
                area_hist(base + suffix, v, res, cum)
    # link distance distribution (histogram over the links)
    if A.sum() > 0 and D.max() > 0.05:
        for gt, Dm in (("spherical", D), ("euclidean", None)):
            if Dm is None:
                ok, Dm = ctx.call(g.euclidean_distance)
                if not ok or np.max(Dm) <= 0:
                    continue
                Dm = np.asarray(Dm, dtype=np.float64)
            nb = int(ctx.rng("nb", cid, gt).integers(1, 9))
            fr, lb, border = ref.link_distance_histogram(A, Dm, nb)
            if border:
                ctx.count("histogram_borderline_skipped")
                continue
            ok, res = ctx.call(net.link_distance_distribution, nb,
                               grid_type=gt, geometry_corrected=False)
            ctx.evals()
            if not ok:
                ctx.violation("link_distance_distribution:raises:"
                              f"{type(res).__name__}:{gt}",
                              {**case, "exc": repr(res)}, cid)
                continue
            ctx.count("link_measures_checked")
            ctx.count("histograms_checked")
            if not (_close(res[0], fr, 1e-9, 1e-12) and
                    _close(res[2], lb, 1e-5, 1e-6)):
                ctx.violation(f"link_distance_distribution:ne-histogram:{gt}",
                              {**case, "n_bins": nb, "lib": res[0],
                               "want": fr, "lbb": res[2], "want_lbb": lb},
                              cid)
    # SpatialNetwork.distance() is the grid distance (also after the
    # distance-weighted measures have been evaluated)
    if ctx.rng("dw", cid).random() < 0.5:
        _distance_weighted_queries(ctx, net)
    ok, Dn = ctx.call(net.distance)
    ctx.evals()
    if not ok or not np.array_equal(np.asarray(Dn, dtype=np.float64), D):
        ctx.violation("GeoNetwork.distance:ne-grid-angular-distance",
                      {**case, "exc": None if ok else repr(Dn)}, cid)
    if len(ctx.samples) < 4 and n <= 5:
        ctx.sample({"kind": "network", "lat": la32, "A": A,
                    "directed": directed, "weights": net.node_weights,
                    "cos_lat": cl})


def check_regenerated_weights(ctx, lat, lon, wtype, cid):
    """Climate networks derived from data regenerate themselves when a
    setting of the similarity measure changes; the node weights afterwards
    are still those of the weight type the network was built with."""
    from pyunicorn import climate
    from pvm.gen.objects import climate_data
    r = ctx.rng("regen", cid)
    n = len(lat)
    T = 36
    obs = r.normal(size=(T, n)) + np.outer(
        np.sin(np.arange(T) * 2 * np.pi / 12), r.normal(size=n))
    cl = ref.cos_lat(lat)
    plans = [("TsonisClimateNetwork", {}, "set_winter_only", (True,)),
             ("HavlinClimateNetwork", {"max_delay": 2}, "set_max_delay",
              (3,)),
             ("HilbertClimateNetwork", {}, "set_directed", (False,)),
             ("SpearmanClimateNetwork", {}, "set_winter_only", (True,))]
    cls, kw, setter, args = plans[int(r.integers(0, len(plans)))]
    kind = [wtype, None, "irrigation"][int(r.integers(0, 3))]
    want = {None: np.ones(n), "surface": cl, "irrigation": cl ** 2}[kind]
    case = {"lat": lat, "lon": lon, "class": cls, "node_weight_type": kind,
            "setter": setter, "obs": obs}
    ok, cd = ctx.call(climate_data, obs, lat, lon, cycle=12)
    if not ok:
        ctx.count("rejected")
        return
    ok, net = ctx.call(getattr(climate, cls), cd, threshold=0.2,
                       node_weight_type=kind, silence_level=3, **kw)
    if not ok:
        ctx.count("climate_constructor_rejected")
        return
    for how, step in (("constructor", None), (setter, args),
                      ("set_threshold", (0.3,))):
        if step is not None:
            ok, e = ctx.call(getattr(net, how), *step)
            if not ok:
                ctx.count("regeneration_refused")
                return
        ctx.evals()
        ctx.count("regenerated_weights_checked")
        w = net.node_weights
        if w is None or np.shape(w) != (n,) or \
                np.abs(np.asarray(w, dtype=np.float64) - want).max() > WTOL \
                or net.node_weight_type != kind:
            ctx.violation(f"node_weights:ne-weight-type-after:{how}:"
                          f"{'unit' if kind is None else kind}",
                          {**case, "w": w,
                           "type_now": repr(net.node_weight_type)}, cid)
            return


def _distance_weighted_queries(ctx, net):
    """the measures that use the distances as link weights (they store them
    as a link attribute of the network); asked before distance() is read"""
    import warnings
    with warnings.catch_warnings():
        warnings.simplefilter("ignore")
        for m in ("average_distance_weighted_path_length",
                  "distance_weighted_closeness",
                  "local_distance_weighted_vulnerability"):
            f = getattr(net, m, None)
            if callable(f):
                ctx.call(f)
                ctx.evals()
    ctx.count("distance_read_after_weighted_measures")



def check_spatial_network(ctx, Grid, SpatialNetwork, X, A, directed, cid):
    case = {"X": X, "A": A, "directed": directed}
    dk = "directed" if directed else "undirected"
    ok, g = ctx.call(Grid, np.arange(2), X, silence_level=3)
    if not ok:
        ctx.count("rejected")
        return
    ok, net = ctx.call(SpatialNetwork, g, adjacency=A, directed=directed,
                       silence_level=3)
    if not ok:
        ctx.violation("SpatialNetwork:constructor-raises:"
                      f"{type(net).__name__}", {**case, "exc": repr(net)}, cid)
        return
    ok, D = ctx.call(g.euclidean_distance)
    if not ok:
        return
    D = np.asarray(D, dtype=np.float64)
    Au = np.maximum(A, A.T)
    if A.sum() > 0:
        ctx.nontrivial(("snet", ref.f32(X).tobytes().hex(),
                        A.astype(np.int8).tobytes().hex(), directed))
    want = {"inaverage_link_distance": ref.avg_link_distance(A.T, D),
            "outaverage_link_distance": ref.avg_link_distance(A, D),
            "max_link_distance": ref.max_link_distance(Au, D),
            "average_link_distance": ref.avg_link_distance(Au, D)}
    for meth, w in want.items():
        if directed and meth == "average_link_distance":
            ctx.count("direction_free_measure_on_directed_skipped")
            continue
        ok, v = ctx.call(getattr(net, meth))
        ctx.evals()
        if not ok:
            ctx.violation(f"{meth}:raises:{type(v).__name__}:{dk}",
                          {**case, "exc": repr(v)}, cid)
            continue
        ctx.count("link_measures_checked")
        if _close(v, w, MTOL, 1e-7 * max(1.0, D.max())):
            continue
        v = np.asarray(v, dtype=np.float64)
        i = _worst(v, w, MTOL, 1e-7 * max(1.0, D.max()))
        if meth == "average_link_distance" and directed:
            cls = "directed-reciprocal" if i >= 0 and \
                (A[i] * A[:, i]).sum() > 0 else "directed"
            ctx.violation(f"{meth}:ne-undirected-version:{cls}",
                          {**case, "node": i, "lib": v, "want": w}, cid)
        else:
            ctx.violation(f"{meth}:ne-defining-sum:{dk}",
                          {**case, "node": i, "lib": v, "want": w}, cid)
    if A.sum() > 0 and D.max() > 0:
        nb = int(ctx.rng("nbs", cid).integers(1, 9))
        fr, lb, border = ref.link_distance_histogram(A, D, nb)
        if border:
            ctx.count("histogram_borderline_skipped")
        else:
            ok, res = ctx.call(net.link_distance_distribution, nb)
            ctx.evals()
            ctx.count("link_measures_checked")
            ctx.count("histograms_checked")
            if not ok or not (_close(res[0], fr, 1e-9, 1e-12) and
                              _close(res[2], lb, 1e-5, 1e-6 * D.max())):
                ctx.violation("link_distance_distribution:ne-histogram:"
                              "euclidean-grid",
                              {**case, "n_bins": nb,
                               "lib": None if not ok else res[0],
                               "want": fr,
                               "exc": None if ok else repr(res)}, cid)
    if ctx.rng("dw", cid).random() < 0.5:
        _distance_weighted_queries(ctx, net)
    ok, Dn = ctx.call(net.distance)
    ctx.evals()
    if not ok or not np.array_equal(np.asarray(Dn, dtype=np.float64), D):
        ctx.violation("SpatialNetwork.distance:ne-grid-distance", case, cid)


def gen_adjacency(r, n, directed):
    p = float(r.choice([0.0, 0.1, 0.3, 0.6, 1.0],
                       p=[0.05, 0.3, 0.35, 0.2, 0.1]))
    A = (r.random((n, n)) < p).astype(np.int16)
    np.fill_diagonal(A, 0)
    if not directed:
        A = np.triu(A, 1)
        A = A + A.T
    return A


# --------------------------------------------------------------------------

def run(ctx):
    from pyunicorn.core import Grid, GeoGrid, GeoNetwork, SpatialNetwork
    T = ctx.thorough
    # sanity of the reference itself (two independent closed forms)
    r0 = ctx.rng("selfcheck")
    la, lo = _sphere(r0, 50)
    Rv, Rc = ref.great_circle_matrix(la, lo), ref.chord_matrix(la, lo)
    far = Rv < 3.0
    if np.abs(Rv - Rc)[far].max() > 1e-7:
        raise RuntimeError("reference oracle inconsistent")

    B0 = ctx.time_left()      # soft budget, shared 45/25/30 by the loops

    # 1. angular distance sets + lookups
    K = 96000 if T else 1500
    k = 0
    while k < K and (ctx.time_left() > 0.55 * B0 or k < K // 3):
        k += 1
        if not ctx.mine(k):
            continue
        cid = f"ang:{k}"
        if not ctx.want(cid):
            continue
        r = ctx.rng("ang", k)
        style = STYLES[k % len(STYLES)]
        n = pick_n(r, k // len(STYLES))
        lat, lon = gen_latlon(r, n, style)
        with ctx.guard(120):
            res = check_angular(ctx, GeoGrid, lat, lon, style, cid)
            if res is not None:
                check_lookup_geo(ctx, res[0], lat, lon, cid,
                                 10 if len(lat) > 1 else 3)
                check_region(ctx, res[0], lat, lon, cid)
                if k % 5 == 0:      # lat/lon degrees as a plain 2-d grid
                    check_euclid(ctx, Grid, np.vstack([lat, lon]), "latlon",
                                 cid, g=res[0], tag="GeoGrid")

    # 2. euclidean sets + lookups
    K = 48000 if T else 1000
    est = ["normal", "lattice", "duplicates", "collinear", "dyadic"]
    k = 0
    while k < K and (ctx.time_left() > 0.3 * B0 or k < K // 3):
        k += 1
        if not ctx.mine(k):
            continue
        cid = f"euc:{k}"
        if not ctx.want(cid):
            continue
        r = ctx.rng("euc", k)
        dim = 1 + k % 5
        style = est[(k // 5) % len(est)]
        n = pick_n(r, k // 25)
        X = gen_euclid(r, dim, n, style)
        with ctx.guard(120):
            g = check_euclid(ctx, Grid, X, style, cid)
            if g is not None:
                check_lookup_euclid(ctx, g, X, cid, 6)
                check_positions(ctx, g, X, cid)

    # 3. rectangular grids: exhaustive small shapes, then random axes
    idx = 0
    for d in range(1, 6):
        for shape in itertools.product((1, 2, 3), repeat=d):
            idx += 1
            if not ctx.mine(idx):
                continue
            cid = "rect:" + "x".join(map(str, shape))
            if not ctx.want(cid):
                continue
            # distinct values per axis, different across axes
            axes = [[float(10 * a + b) for b in range(m)]
                    for a, m in enumerate(shape)]
            check_rect(ctx, Grid, GeoGrid, axes, cid)
    K = 1500 if T else 300
    for k in range(1, K + 1):
        if not ctx.mine(k):
            continue
        cid = f"rectr:{k}"
        if not ctx.want(cid):
            continue
        r = ctx.rng("rect", k)
        d = 2 if k % 2 == 0 else int(r.integers(1, 6))
        axes = []
        tot = 1
        for a in range(d):
            m = int(r.integers(1, 8 if d <= 3 else 5))
            if tot * m > 3000:
                m = 1
            tot *= m
            ax = r.choice([-90, -45.5, -10.25, 0, 2.5, 30, 60.125, 90, 180,
                           -180, 360, 0.1, 7.7], m,
                          replace=bool(r.random() < 0.3))
            axes.append([float(v) for v in ax])
        check_rect(ctx, Grid, GeoGrid, axes, cid)

    # 4. geographic networks: weights, AWC, link distance measures
    K = 12000 if T else 900
    k = 0
    while k < K and (ctx.time_left() > 0 or k < K // 3):
        k += 1
        if not ctx.mine(k):
            continue
        cid = f"net:{k}"
        if not ctx.want(cid):
            continue
        r = ctx.rng("net", k)
        n = int(r.integers(2, 13 if k % 3 else 61))
        style = STYLES[(k // 2) % len(STYLES)]
        lat, lon = gen_latlon(r, n, style)
        n = len(lat)
        if n < 2:
            continue
        directed = bool(r.random() < 0.5)
        A = gen_adjacency(r, n, directed)
        wtype = "surface" if r.random() < 0.5 else "irrigation"
        with ctx.guard(120):
            check_network(ctx, GeoGrid, GeoNetwork, lat, lon, A, directed,
                          wtype, cid)
        if k % 4 == 0 and n <= 12:
            with ctx.guard(60):
                check_regenerated_weights(ctx, lat, lon, wtype, cid + ":r")
        if k % 3 == 0:
            dim = 1 + (k // 3) % 5
            X = gen_euclid(r, dim, n, "normal")
            with ctx.guard(60):
                check_spatial_network(ctx, Grid, SpatialNetwork, X, A,
                                      directed, cid + ":s")
