"""C02 — node-splitting invariance of all n.s.i. measures (metamorphic)."""
import itertools
import warnings

import numpy as np

from pvm.gen import graphs as G

META = dict(
    shards={"quick": 16, "thorough": 16},
    budget={"quick": 40, "thorough": 600},
    timeout={"quick": 900, "thorough": 3600},
    technique="metamorphic relation: own node-split construction "
              "(cross-checked against splitted_copy) vs. original network",
    rule=("case = (graph, positive node weights, optional link attribute, "
          "node v, proportion p, measure variant). The harness builds the "
          "split network itself (twin v' appended: same in/out neighbours, "
          "v<->v' linked, weights (1-p)w_v and p*w_v, link attribute rows "
          "copied, twin-twin attribute = the diagonal entry as documented) and "
          "requires: global values equal; per-node values equal on untouched "
          "nodes and both twins carry v's value; pairwise values equal on "
          "untouched pairs and the twin's row equals v's row (rtol 1e-9, atol "
          "1e-12, relative to the scale of the result; 1e-4 for the ARPACK eigenvector (tol=1e-8 relative to the shift W^2, divided by the spectral gap), 1e-6 for the random-walk betweennesses that solve linear systems (only for node-weight dynamic range <= 1e4, the conditioning of those systems grows with its square); entries that are non-finite / >1e9 on either side are undefined points of the typical-weight correction and skipped). Graphs: every labelled "
          "undirected graph with <=4 (quick) / <=5 (thorough) nodes and "
          "directed graph with <=3 / <=4 nodes (measures defined on "
          "disconnected graphs only, otherwise connected ones), every node v, "
          "p in {1/2, 0.01, 0.99, random}, seeded random graphs with 6..25 "
          "nodes, iterated splits up to depth 3; for the two-subnetwork "
          "variants every ordered partition into two groups (n<=5) or random "
          "ones, the twin joining v's group. non-trivial = distinct (graph, v, "
          "measure variant) in which v has at least one neighbour, so that "
          "the unweighted analogue of the measure does change under the "
          "split."),
    floors={"quick": {"split_pairs": 1500, "measures_compared": 40000,
                      "interacting_compared": 6000, "directed_compared": 5000,
                      "weighted_key_compared": 8000,
                      "splitted_copy_crosschecked": 800},
            "thorough": {"split_pairs": 15000, "measures_compared": 400000,
                         "interacting_compared": 60000,
                         "directed_compared": 50000,
                         "weighted_key_compared": 80000,
                         "splitted_copy_crosschecked": 8000}},
    exhaustive_subspaces={
        "quick": ["undirected graphs n<=4 x every node x 3 proportions",
                  "directed graphs n<=3 x every node"],
        "thorough": ["undirected graphs n<=5 x every node x 3 proportions",
                     "directed graphs n<=4 x every node",
                     "all ordered bipartitions for n<=5 (interacting)"]},
    assumptions=[
        "scope = measures documented as n.s.i. (docstring shows "
        "splitted_copy equality or names the measure n.s.i.); frequency "
        "histograms (nsi_degree_histogram) and nsi_laplacian are out of "
        "scope by their own docs; nsi_spreading (marked experimental, but "
        "named n.s.i. and tested for invariance by the library's own "
        "test_nsi) is compared on undirected graphs with a node-weight "
        "dynamic range <= 1e4",
        "the eigenvector centrality only on connected undirected graphs; "
        "shortest-path based measures (average path length, the closeness "
        "family, global efficiency) on all graphs, directed and disconnected "
        "ones included; random-walk betweennesses are defined per component "
        "and run on all undirected graphs; nsi_betweenness only undirected"],
)

META["rule"] += (
    " " + 'Added after the second round of seeded changes: average path length, the closeness family and global efficiency also on directed and on disconnected graphs.')

META["rule"] += (
    " " + 'Added after the fifth round: node lists of the two-group measures in any order, the twin anywhere in its list; nsi_spreading() and nsi_spreading(alpha=0.3) on undirected graphs (node-weight dynamic range <= 1e4, rtol 1e-6); half of the cross-checked originals carry two or three link attributes, all read back from splitted_copy().')

META["rule"] += (
    " " + 'Added after the sixth round: a quarter of the originals are built from a scipy matrix (half of those with explicitly stored zeros); a quarter of the attributed originals have a copy() taken and given other link and node weights before the comparison.')

META["rule"] += (
    " " + "Added after the seventh round: the node weights are handed over as the caller's own array (refilled afterwards in 40 %), as float32 when exact.")

META["rule"] += (
    " " + 'Added after the eighth round: one sparse component of 258 / 259 nodes for the random-walk betweenness (moderate weights) before and after a split; split proportions 1e-12, 1e-9 and 1 - 2^-40 in a tenth of the random cases (the Arenas and spreading measures are judged whenever the weights of the network itself span no more than 1e4).')

# typical weights: chosen so that the corrected degree k/tw - 1 (a factor of
# the corrected clustering denominators) cannot vanish exactly for integer
# or split-integer node weights - at such points the measure is 0/0
TW2, TW3 = 2.137, 3.271
# (label, method, kwargs, kind, needs)   kind: g(lobal) n(ode) p(air)
U, D, C = "undirected", "directed-ok", "connected"
ANY = "directed-or-disconnected-ok"
NET = [
    ("nsi_degree", {}, "n", D), ("nsi_degree", {"typical_weight": TW2}, "n", D),
    ("nsi_degree", {"key": "w"}, "n", D),
    ("nsi_degree", {"key": "w", "typical_weight": TW2}, "n", D),
    ("nsi_indegree", {}, "n", D), ("nsi_indegree", {"key": "w"}, "n", D),
    ("nsi_outdegree", {}, "n", D), ("nsi_outdegree", {"key": "w"}, "n", D),
    ("nsi_outdegree", {"typical_weight": TW3}, "n", D),
    ("nsi_bildegree", {}, "n", D), ("nsi_bildegree", {"key": "w"}, "n", D),
    ("nsi_average_neighbors_degree", {}, "n", U),
    ("nsi_max_neighbors_degree", {}, "n", U),
    ("nsi_local_clustering", {}, "n", U),
    ("nsi_local_clustering", {"typical_weight": TW2}, "n", U),
    ("nsi_global_clustering", {}, "g", U),
    ("nsi_transitivity", {}, "g", U),
    ("nsi_local_soffer_clustering", {}, "n", U),
    ("nsi_local_cyclemotif_clustering", {}, "n", D),
    ("nsi_local_cyclemotif_clustering", {"key": "w"}, "n", D),
    ("nsi_local_cyclemotif_clustering", {"typical_weight": TW2}, "n", D),
    ("nsi_local_midmotif_clustering", {}, "n", D),
    ("nsi_local_midmotif_clustering", {"key": "w"}, "n", D),
    ("nsi_local_inmotif_clustering", {}, "n", D),
    ("nsi_local_inmotif_clustering", {"key": "w"}, "n", D),
    ("nsi_local_inmotif_clustering", {"typical_weight": TW2}, "n", D),
    ("nsi_local_outmotif_clustering", {}, "n", D),
    ("nsi_local_outmotif_clustering", {"key": "w"}, "n", D),
    ("nsi_twinness", {}, "p", U),
    ("nsi_average_path_length", {}, "g", ANY),
    ("nsi_closeness", {}, "n", ANY),
    ("nsi_harmonic_closeness", {}, "n", ANY),
    ("nsi_exponential_closeness", {}, "n", ANY),
    ("nsi_global_efficiency", {}, "g", ANY),
    ("nsi_betweenness", {}, "n", U),
    ("nsi_eigenvector_centrality", {}, "n", C),
    ("nsi_arenas_betweenness", {}, "n", U),
    ("nsi_arenas_betweenness", {"exclude_neighbors": False}, "n", U),
    ("nsi_arenas_betweenness", {"stopping_mode": "twinness"}, "n", U),
    ("nsi_newman_betweenness", {}, "n", U),
    ("nsi_newman_betweenness", {"add_local_ends": True}, "n", U),
    ("nsi_spreading", {}, "n", U),
    ("nsi_spreading", {"alpha": 0.3}, "n", U),
]
# (method, kind, arity)  kind g / n1 (per node of list 1)
INTER = [
    ("nsi_cross_degree", "n1", 2), ("nsi_cross_mean_degree", "g", 2),
    ("nsi_internal_degree", "n1", 1), ("nsi_cross_local_clustering", "n1", 2),
    ("nsi_cross_closeness_centrality", "n1", 2),
    ("nsi_internal_closeness_centrality", "n1", 1),
    ("nsi_cross_global_clustering", "g", 2),
    ("nsi_internal_local_clustering", "n1", 1),
    ("nsi_cross_betweenness", "nall", 2), ("nsi_cross_edge_density", "g", 2),
    ("nsi_cross_transitivity", "g", 2),
    ("nsi_cross_average_path_length", "g", 2),
]


PATH_BASED = ("nsi_cross_closeness_centrality",
              "nsi_internal_closeness_centrality", "nsi_cross_betweenness",
              "nsi_cross_average_path_length")


def lab(m, kw):
    return m + ("" if not kw else "(" + ",".join(
        f"{k}={v}" for k, v in sorted(kw.items())) + ")")


def split(A, w, W, v, p):
    n = len(A)
    A2 = np.zeros((n + 1, n + 1), dtype=A.dtype)
    A2[:n, :n] = A
    A2[:n, n] = A[:, v]
    A2[n, :n] = A[v, :]
    A2[v, n] = A2[n, v] = 1
    w2 = np.append(w, p * w[v]).astype(float)
    w2[v] = (1.0 - p) * w[v]
    W2 = None
    if W is not None:
        W2 = np.zeros((n + 1, n + 1))
        W2[:n, :n] = W
        W2[:n, n] = W[:, v]
        W2[n, :n] = W[v, :]
        W2[v, n] = W2[n, v] = W2[n, n] = W[v, v]
    return A2, w2, W2


def close(a, b, rtol, atol=1e-12, natural=0.0):
    """Equality up to rtol relative to the scale of the result (and, for
    sums over weighted node pairs, to their natural scale W^2: an exact 0
    may come back as 1e-12 rounding noise of O(W^2) terms).  Entries
    that are non-finite or astronomically large on either side are points
    where the (typical-weight corrected) measure is undefined (0/0, x/0):
    they carry no information and are skipped (counted by the caller)."""
    a = np.asarray(a, dtype=float)
    b = np.asarray(b, dtype=float)
    if a.shape != b.shape:
        return False
    with np.errstate(all="ignore"):
        undefined = ~np.isfinite(a) | ~np.isfinite(b) | \
            (np.abs(a) > 1e9) | (np.abs(b) > 1e9)
        d = ~undefined
        if not d.any():
            return True
        scale = max(np.abs(a[d]).max(), np.abs(b[d]).max(), natural)
        ok = np.abs(a[d] - b[d]) <= rtol * np.maximum(
            np.abs(a[d]), np.abs(b[d])) + rtol * scale + atol
    return bool(np.all(ok))


def _close_global(a, b, rtol, natural=0.0):
    return close(a, b, rtol, natural=natural)


def relation(kind, x0, x1, v, n, rtol, natural=0.0):
    """x0 on the original (n nodes), x1 on the split (n+1 nodes)."""
    def close(a, b, rtol):    # noqa
        return _close_global(a, b, rtol, natural=natural)
    if kind == "g":
        return close(x0, x1, rtol)
    x0 = np.asarray(x0, dtype=float)
    x1 = np.asarray(x1, dtype=float)
    # single entries (the twins) are compared on the scale of the whole
    # result vector, not on their own
    fin = np.isfinite(x0) & (np.abs(x0) < 1e9)
    if fin.any():
        natural = max(natural, float(np.abs(x0[fin]).max()))
    if kind == "n":
        if x0.shape != (n,) or x1.shape != (n + 1,):
            return False
        return close(x0, x1[:n], rtol) and close(x0[v], x1[n], rtol)
    if kind == "p":
        if x0.shape != (n, n) or x1.shape != (n + 1, n + 1):
            return False
        others = [i for i in range(n) if i != v]
        ok = close(x0[np.ix_(others, others)], x1[np.ix_(others, others)],
                   rtol)
        ok = ok and close(x0[v, others], x1[n, others], rtol) and \
            close(x0[others, v], x1[others, n], rtol) and \
            close(x0[v, others], x1[v, others], rtol)
        return ok
    raise ValueError(kind)


def mk(cls, A, w, W, directed, form="dense"):
    if form != "dense":
        # the adjacency in a sparse form a caller may hold it in; "zeros":
        # with explicitly stored zeros (entries cleared in place, e.g. a
        # link removed by S[i, j] = 0): they are not links
        import scipy.sparse as sp
        n = len(A)
        if form == "zeros":
            rr, cc = np.nonzero(np.ones_like(A) - np.eye(n, dtype=A.dtype))
            A = sp.csr_matrix((A[rr, cc], (rr, cc)), shape=(n, n))
        else:
            A = sp.csr_matrix(A)
    net = cls(adjacency=A, directed=directed, node_weights=w,
              silence_level=3)
    if W is not None:
        net.set_link_attribute("w", W)
    return net


def one_split(ctx, Network, A, w, W, directed, v, p, cid, measures,
              crosscheck=True, depth=0):
    n = len(A)
    if not A.any():
        W = None      # a network without links carries no link attribute
    A2, w2, W2 = split(A, w, W, v, p)
    conn = G.connected(A)
    with warnings.catch_warnings():
        warnings.simplefilter("ignore")
        ru = ctx.rng("used", cid, v, int(p * 1000), depth)
        if ru.random() < 0.3:
            # the original network object has a past: it was analysed with
            # other node weights before it got the present ones
            # ... and (if it has a link attribute) with other values of that
            # attribute under the same name
            w_old = G.pos_weights(ru, n, "loguni")
            W_old = None if W is None else W * 1.5 + (W != 0) * 0.25
            n0 = mk(Network, A, w_old, W_old, directed)
            keyed = [x for x in measures if "key" in x[1]]
            plain = [measures[i] for i in ru.permutation(len(measures))[:4]]
            if W is not None and keyed:
                plain += [keyed[i] for i in
                          ru.permutation(len(keyed))[:3]]
            for mm, kw, _, need in plain:
                if "key" in kw and W is None or "arenas" in mm or \
                        "newman" in mm:
                    continue
                ctx.call(getattr(n0, mm), **kw)
            n0.node_weights = w
            if W is not None:
                # (the keyed measures once more with the final node weights,
                #  so that only the attribute changes afterwards)
                for mm, kw, _, need in keyed[:3]:
                    ctx.call(getattr(n0, mm), **kw)
                n0.set_link_attribute("w", W)
            ctx.count("originals_used_before")
        else:
            form = str(ru.choice(["dense", "dense", "csr", "zeros"]))
            if form != "dense" and n >= 2:
                ctx.count("original_from_sparse:" + form)
            # the node weights as the caller's own array: float64 (refilled
            # by the caller afterwards) or float32 when that is exact
            wg = np.array(w, dtype=np.float64)
            w32 = wg.astype(np.float32)
            if ru.random() < 0.4 and np.array_equal(w32.astype(float), wg):
                wg = w32
                ctx.count("node_weights_given_as_float32")
            n0 = mk(Network, A, wg, W, directed, form if n >= 2 else "dense")
            if ru.random() < 0.4:
                wg *= 2.5
                wg += 1.0
                ctx.count("node_weight_array_refilled_by_caller")
        if W is not None and ru.random() < 0.25:
            # a copy of the original is taken and given other link weights
            # (and node weights) after keyed measures were queried: the
            # original is not the copy
            keyed_ = [x for x in measures if "key" in x[1]]
            for mm, kw, _, need in keyed_[:2]:
                ctx.call(getattr(n0, mm), **kw)
            okc, work = ctx.call(n0.copy)
            if okc:
                ctx.call(work.set_link_attribute, "w",
                         (W * 2.0 + 1.0) * (A != 0))
                work.node_weights = np.asarray(w) * 1.5 + 0.25
                ctx.count("copies_changed_afterwards")
        n1 = mk(Network, A2, w2, W2, directed)
        ctx.count("split_pairs")
        Wb = None
        if crosscheck and W is not None and ru.random() < 0.5:
            # the network carries further link attributes besides "w"
            Wb = W * 0.5 + (A != 0) * 1.0
            if ru.random() < 0.5:
                n0.set_link_attribute("w_b", Wb)
            else:
                # ("w" is not the attribute that was set last)
                n0.set_link_attribute("a_first", Wb * 3.0)
                n0.set_link_attribute("w_b", Wb)
            ctx.count("split_with_several_link_attributes")
        if crosscheck:
            ok, sc = ctx.call(n0.splitted_copy, node=v, proportion=p)
            ctx.count("splitted_copy_crosschecked")
            bad = None
            if not ok:
                bad = f"raises:{type(sc).__name__}"
            elif not (np.array_equal(sc.adjacency, A2) and
                      close(sc.node_weights, w2, 1e-12)):
                bad = "adjacency-or-weights-differ"
            elif W is not None and not close(sc.link_attribute("w"), W2,
                                             1e-12):
                bad = "link-attribute-differs"
            elif Wb is not None and not close(
                    sc.link_attribute("w_b"), split(A, w, Wb, v, p)[2],
                    1e-12):
                bad = "second-link-attribute-differs"
            if bad:
                ctx.violation(f"splitted_copy:{bad}",
                              {"edges": np.argwhere(A).tolist(), "v": v,
                               "p": p, "directed": directed}, cid)
        deg_v = int(A[v].sum() + A[:, v].sum())
        for m, kw, kind, need in measures:
            if "key" in kw and W is None:
                continue
            if directed and need not in (D, ANY):
                continue
            if need == C and not conn:
                continue
            if m.endswith("arenas_betweenness") and n > 9:
                continue
            # (measured: a twin of very small weight alone costs the
            #  Arenas and spreading measures nothing - 1e-10 at an original
            #  range of 1e4 whatever the proportion - so for them the range
            #  of the network's own weights counts; the Newman measure
            #  inverts a matrix in which the twin's weight appears)
            wr = w2 if "newman" in m else np.asarray(w, dtype=float)
            if ("newman" in m or "arenas" in m or "spreading" in m) and \
                    wr.max() / wr.min() > 1e4:
                # these measures invert a weighted Laplacian-type matrix
                # whose condition number grows with (w_max/w_min)^2: beyond
                # a dynamic range of 1e4 rounding alone exceeds any fixed
                # tolerance (observed 6e-6 at a range of 1e7)
                ctx.count("illconditioned_random_walk_skipped")
                continue
            ok0, x0 = ctx.call(getattr(n0, m), **kw)
            ok1, x1 = ctx.call(getattr(n1, m), **kw)
            ctx.evals(2)
            name = lab(m, kw)
            ctx.count("measures_compared")
            if directed:
                ctx.count("directed_compared")
            if "key" in kw:
                ctx.count("weighted_key_compared")
            if deg_v > 0:
                ctx.nontrivial((name, directed, G.canon_key(A), v))
            case = {"measure": name, "edges": np.argwhere(
                A if directed else np.triu(A)).tolist(), "N": n,
                "directed": directed, "weights": w, "v": v, "p": p,
                "attr": None if W is None else W, "depth": depth}
            dsig = ":directed" if directed else ""
            if not ok0 and not ok1 and type(x0) is type(x1):
                ctx.count("both_raise")
                continue
            if not ok0 or not ok1:
                e = x0 if not ok0 else x1
                ctx.violation(f"{name}:raises:{type(e).__name__}{dsig}",
                              {**case, "exc": repr(e),
                               "on": "original" if not ok0 else "split"},
                              cid)
                continue
            # ARPACK runs with tol=1e-8 relative to the shift sigma=W^2; the
            # eigenvector error is that times sigma/(spectral gap): 1e-4 of
            # the unit maximum is what the library can deliver, while a
            # genuinely non-invariant weighting shows up at O(1e-2..1)
            rtol = 1e-4 if "eigenvector" in m else \
                1e-6 if ("newman" in m or "arenas" in m
                         or "spreading" in m) else 1e-9
            nat = float(np.sum(w)) ** 2 if "betweenness" in m else 0.0
            if not relation(kind, x0, x1, v, n, rtol, nat):
                ctx.violation(f"{name}:not-invariant{dsig}",
                              {**case, "original": x0, "split": x1}, cid)
    return A2, w2, W2


def interacting_split(ctx, IN, A, w, v, p, g1, g2, cid, ro=None):
    """g1, g2: node lists of the original (in any order); the twin joins v's
    group - at the end of the list, or (ro given) anywhere in it."""
    n = len(A)
    A2, w2, _ = split(A, w, None, v, p)
    h1, h2 = list(g1), list(g2)
    for h in (h1, h2):
        if v in h:
            h.insert(len(h) if ro is None else int(ro.integers(0, len(h) + 1)),
                     n)
    # positions of the original nodes, and of the twin, in the new list 1
    keep1 = [i for i, x in enumerate(h1) if x != n]
    twin1 = h1.index(n) if n in h1 else None
    if list(g1) != sorted(g1) or list(g2) != sorted(g2) or \
            (twin1 is not None and twin1 != len(h1) - 1):
        ctx.count("interacting_lists_not_ascending")
    with warnings.catch_warnings():
        warnings.simplefilter("ignore")
        n0 = IN(adjacency=A, node_weights=w, silence_level=3)
        n1 = IN(adjacency=A2, node_weights=w2, silence_level=3)
        conn = G.connected(A)
        for m, kind, arity in INTER:
            if not conn and m in PATH_BASED:
                # unreachable pairs are replaced by N-1 (documented
                # convention), which is not defined independently of N
                continue
            a0 = (g1, g2) if arity == 2 else (g1,)
            a1 = (h1, h2) if arity == 2 else (h1,)
            if ro is not None and (v + n) % 3 == 0:
                # (node lists as arrays of a narrow integer type, the way
                #  an index file or np.arange(..., dtype=...) delivers them)
                dt_ = (np.int8, np.uint8, np.int16)[(v + len(g1)) % 3]
                a0 = tuple(np.asarray(x, dtype=dt_) for x in a0)
                a1 = tuple(np.asarray(x, dtype=dt_) for x in a1)
                ctx.count("interacting_lists_as_narrow_integer_arrays")
            ok0, x0 = ctx.call(getattr(n0, m), *a0)
            ok1, x1 = ctx.call(getattr(n1, m), *a1)
            ctx.evals(2)
            ctx.count("interacting_compared")
            ctx.nontrivial((m, G.canon_key(A), v, tuple(g1), tuple(g2)))
            case = {"measure": m, "edges": np.argwhere(np.triu(A)).tolist(),
                    "N": n, "weights": w, "v": v, "p": p, "group1": list(g1),
                    "group2": list(g2)}
            if not ok0 and not ok1 and type(x0) is type(x1):
                ctx.count("both_raise")
                continue
            if not ok0 or not ok1:
                e = x0 if not ok0 else x1
                ctx.violation(f"{m}:raises:{type(e).__name__}",
                              {**case, "exc": repr(e)}, cid)
                continue
            good = True
            if kind == "g":
                good = close(x0, x1, 1e-9)
            elif kind == "n1":
                x0 = np.asarray(x0, float)
                x1 = np.asarray(x1, float)
                k = len(g1)
                good = x0.shape == (k,) and x1.shape == (len(h1),) and \
                    close(x0, x1[keep1], 1e-9)
                if good and v in g1:
                    good = close(x0[list(g1).index(v)], x1[twin1], 1e-9)
            elif kind == "nall":
                x0 = np.asarray(x0, float)
                x1 = np.asarray(x1, float)
                good = x0.shape == (n,) and x1.shape == (n + 1,) and \
                    close(x0, x1[:n], 1e-9) and close(x0[v], x1[n], 1e-9)
            if not good:
                ctx.violation(f"{m}:not-invariant",
                              {**case, "original": x0, "split": x1}, cid)


def props(r, k):
    return [0.5, 0.01, 0.99, float(np.round(r.uniform(0.05, 0.95), 3))][:k]


def run(ctx):
    from pyunicorn.core import Network, InteractingNetworks as IN
    nu = 5 if ctx.thorough else 4
    nd = 4 if ctx.thorough else 3
    idx = 0
    # ---- exhaustive undirected ----------------------------------------
    for n in range(2, nu + 1):
        for bits in range(G.count_undirected(n)):
            idx += 1
            if not ctx.mine(idx):
                continue
            cid = f"exu:{n}:{bits}"
            if not ctx.want(cid):
                continue
            A = G.nth_undirected(n, bits)
            r = ctx.rng("exu", n, bits)
            w = G.pos_weights(r, n, "loguni" if bits % 2 else "ints")
            W = G.link_attr(r, A) if bits % 3 else None
            for v in range(n):
                for p in props(r, 3 if n <= 4 else 2):
                    one_split(ctx, Network, A, w, W, False, v, p, cid, NET,
                              crosscheck=(v == 0))
            if n <= 4 or bits % 8 == 0:
                # interacting variants: every ordered bipartition
                for mask in range(1, (1 << n) - 1):
                    g1 = [i for i in range(n) if mask >> i & 1]
                    g2 = [i for i in range(n) if not mask >> i & 1]
                    v = int(r.integers(0, n))
                    if mask % 2:
                        g1, g2 = g1[::-1], g2[::-1]
                    interacting_split(ctx, IN, A, w, v, 0.3, g1, g2, cid,
                                      r if mask % 4 == 1 else None)
    # ---- exhaustive directed ------------------------------------------
    dmeas = [x for x in NET if x[3] == D]
    for n in range(2, nd + 1):
        for bits in range(1 << (n * (n - 1))):
            idx += 1
            if not ctx.mine(idx):
                continue
            cid = f"exd:{n}:{bits}"
            if not ctx.want(cid):
                continue
            A = G.nth_directed(n, bits)
            r = ctx.rng("exd", n, bits)
            w = G.pos_weights(r, n, "loguni")
            W = G.link_attr(r, A, True) if bits % 2 else None
            for v in range(n):
                one_split(ctx, Network, A, w, W, True, v,
                          props(r, 4)[(bits + v) % 4], cid, dmeas,
                          crosscheck=(v == 0))
    # ---- sizes around powers of two (blocked / tiled implementations) ---
    sizes = [127, 128, 129, 255, 256, 257] if ctx.thorough else [127, 128,
                                                                 129]
    for j, n0 in enumerate(sizes):
        if not ctx.mine(j):
            continue
        cid = f"pow2:{n0}"
        if not ctx.want(cid):
            continue
        r = ctx.rng("pow2", n0)
        A = G.random_connected(r, n0, n0, extra_p=0.0)
        # a little denser than a tree, still sparse
        extra = np.triu(r.random((n0, n0)) < 4.0 / n0, 1)
        A = ((A + extra + extra.T) > 0).astype(np.int8)
        np.fill_diagonal(A, 0)
        w = G.pos_weights(r, n0)
        # (the ARPACK eigenvector is compared with a tolerance that assumes
        #  the spectral gap of small dense graphs; sparse graphs of this size
        #  have a much smaller gap, so it is left to the other families)
        meas = [x for x in NET if "arenas" not in x[0]
                and "newman" not in x[0] and "key" not in x[1]
                and "eigenvector" not in x[0]]
        ctx.count("power_of_two_sizes")
        with ctx.guard(600):
            for v in (n0 - 1, int(r.integers(0, n0))):
                one_split(ctx, Network, A, w, None, False, v, 0.3, cid, meas,
                          crosscheck=False)
    # ---- the random-walk betweenness just beyond 256 nodes (one sparse
    #      component: its leaves have exactly 256 non-neighbours, nodes of
    #      degree 2 have as many after the split) ---------------------------
    for j, n0 in enumerate((258, 259) if ctx.thorough else (258,)):
        cid = f"walk8bit:{n0}"
        if not ctx.mine(j + 3) or not ctx.want(cid):
            continue
        r = ctx.rng("walk8bit", n0)
        A = G.random_connected(r, n0, n0, extra_p=0.0)
        extra = np.triu(r.random((n0, n0)) < 1.0 / n0, 1)
        A = ((A + extra + extra.T) > 0).astype(np.int8)
        np.fill_diagonal(A, 0)
        w = np.round(r.uniform(0.5, 2.0, n0) * 16) / 16
        meas = [x for x in NET if "newman" in x[0]]
        ctx.count("random_walk_betweenness_beyond_256_nodes")
        with ctx.guard(900):
            one_split(ctx, Network, A, w, None, False,
                      int(r.integers(0, n0)), 0.3, cid, meas,
                      crosscheck=False)
    # ---- random, iterated splits --------------------------------------
    k = 0
    cap = 30000 if ctx.thorough else 2400
    while ctx.time_left() > 0 and k < cap:
        k += 1
        if not ctx.mine(k):
            continue
        cid = f"rnd:{k}"
        if not ctx.want(cid):
            continue
        r = ctx.rng("rnd", k)
        directed = (k % 4 == 0)
        if k % 3 == 0 and not directed:
            A = G.random_connected(r, 5, 14)
        else:
            A = G.random_graph(r, 6, 18 if k % 5 else 25, directed)
        n = len(A)
        w = G.pos_weights(r, n)
        W = G.link_attr(r, A, directed, ties=bool(k % 2)) \
            if r.random() < 0.7 else None
        with ctx.guard(120):
            depth = int(r.integers(1, 4))
            meas = NET if n <= 12 else [x for x in NET if "arenas" not in x[0]
                                        and "newman" not in x[0]]
            for d in range(depth):
                v = int(r.integers(0, len(A)))
                if d and r.random() < 0.5:
                    v = len(A) - 1         # split a twin again
                p = props(r, 4)[int(r.integers(0, 4))]
                if k % 10 == 7 and d == 0:
                    # "every split proportion in (0,1)": twins that carry
                    # next to nothing / next to everything of v's weight
                    p = float(r.choice([1e-12, 1e-9, 1.0 - 2.0 ** -40]))
                    ctx.count("extreme_split_proportions")
                A, w, W = one_split(ctx, Network, A, w, W, directed, v, p,
                                    cid, meas, crosscheck=True, depth=d)
            if not directed and k % 2:
                n = len(A)
                perm = r.permutation(n)
                c = int(r.integers(1, n))
                g1, g2 = sorted(perm[:c].tolist()), sorted(perm[c:].tolist())
                if r.random() < 0.3 and len(g2) > 1:
                    g2 = g2[:-1]          # leave a node uninvolved
                ro = None
                if r.random() < 0.5:
                    # node lists as a caller may write them: in any order
                    g1 = [g1[i] for i in r.permutation(len(g1))]
                    g2 = [g2[i] for i in r.permutation(len(g2))]
                    ro = r
                interacting_split(ctx, IN, A, w, int(r.integers(0, n)),
                                  float(r.choice([0.5, 0.2, 0.9])), g1, g2,
                                  cid, ro)
        if len(ctx.samples) < 3:
            ctx.sample({"case": cid, "N": len(A), "directed": directed,
                        "edges": np.argwhere(A).tolist()[:30]})


_ = itertools
