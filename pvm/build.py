"""Scratch rebuild of the repository's *working tree* (never trusting in-tree
build products), keyed by a content hash of the sources.

Flavours:
  plain   gcc -O3 exactly as setup.py does
  asan    clang-14 -O1 -g -fsanitize=address,undefined  (gate: no recover)
  asanrec same, but -fsanitize-recover=all (survey: keep going after a report)
"""
import fcntl
import hashlib
import os
import shutil
import subprocess
import sys
import time

VERIF = os.path.dirname(os.path.dirname(os.path.abspath(__file__)))
REPO = os.environ.get("VERIF_REPO", "/repo")
CACHE = os.path.join(VERIF, ".cache")
BUILD_ROOT = os.path.join(CACHE, "build")
PY = "/venv/bin/python"

TOP_FILES = ["setup.py", "setup.cfg", "pyproject.toml", "README.rst",
             "MANIFEST.in", "LICENSE.txt"]
SRC_EXT = (".py", ".pyx", ".pxd", ".c", ".h")


def _is_generated(rel):
    # Cython output and shared objects are build products
    return rel.endswith("_ext/numerics.c") or rel.endswith(".so")


def source_files(repo=None):
    repo = repo or REPO
    out = []
    for f in TOP_FILES:
        p = os.path.join(repo, f)
        if os.path.exists(p):
            out.append(f)
    base = os.path.join(repo, "src", "pyunicorn")
    for dp, dn, fn in os.walk(base):
        dn[:] = sorted(d for d in dn if d != "__pycache__")
        for f in sorted(fn):
            rel = os.path.relpath(os.path.join(dp, f), repo)
            if f.endswith(SRC_EXT) and not _is_generated(rel):
                out.append(rel)
    return out


def tree_hash(repo=None):
    repo = repo or REPO
    h = hashlib.sha256()
    for rel in source_files(repo):
        h.update(rel.encode())
        h.update(b"\0")
        with open(os.path.join(repo, rel), "rb") as fh:
            h.update(fh.read())
        h.update(b"\0")
    return h.hexdigest()[:16]


def asan_runtime():
    return subprocess.check_output(
        ["clang", "-print-file-name=libclang_rt.asan-x86_64.so"],
        text=True).strip()


def _flavour_env(flavour):
    env = dict(os.environ)
    env.pop("PYTHONPATH", None)
    if flavour == "plain":
        return env
    san = "-fsanitize=address,undefined"
    rec = ("-fsanitize-recover=all" if flavour == "asanrec"
           else "-fno-sanitize-recover=all")
    env["CC"] = "clang"
    env["LDSHARED"] = "clang -shared"
    env["CFLAGS"] = (f"-O1 -g -fno-omit-frame-pointer {san} {rec} "
                     "-shared-libasan")
    env["LDFLAGS"] = f"{san} -shared-libasan"
    return env


def _prune(flavour, keep):
    """Remove builds of this flavour that have not been used for 40 minutes
    (several checks / scratch self-tests may share the cache concurrently),
    always keeping the 6 most recently used."""
    try:
        ents = [e for e in os.listdir(BUILD_ROOT)
                if e.endswith("-" + flavour) and
                os.path.exists(os.path.join(BUILD_ROOT, e, ".ok"))]
    except FileNotFoundError:
        return
    ents.sort(key=lambda e: os.path.getmtime(os.path.join(BUILD_ROOT, e)),
              reverse=True)
    now = time.time()
    for e in ents[6:]:
        p = os.path.join(BUILD_ROOT, e)
        if e != keep and now - os.path.getmtime(p) > 2400:
            shutil.rmtree(p, ignore_errors=True)


def ensure(flavour="plain", repo=None, quiet=True):
    """Return the path of a build of the current working tree (src dir to put
    on PYTHONPATH).  Builds it if missing.  Raises RuntimeError on failure."""
    repo = repo or REPO
    os.makedirs(BUILD_ROOT, exist_ok=True)
    key = f"{tree_hash(repo)}-{flavour}"
    dest = os.path.join(BUILD_ROOT, key)
    lock = open(os.path.join(BUILD_ROOT, f".lock-{key}"), "w")
    fcntl.flock(lock, fcntl.LOCK_EX)
    try:
        if os.path.exists(os.path.join(dest, ".ok")):
            os.utime(dest)
            return os.path.join(dest, "src")
        shutil.rmtree(dest, ignore_errors=True)
        os.makedirs(dest)
        for rel in source_files(repo):
            d = os.path.join(dest, rel)
            os.makedirs(os.path.dirname(d), exist_ok=True)
            shutil.copy2(os.path.join(repo, rel), d)
        t0 = time.time()
        p = subprocess.run(
            [PY, "setup.py", "build_ext", "--inplace", "-j", "4"],
            cwd=dest, env=_flavour_env(flavour),
            stdout=subprocess.PIPE, stderr=subprocess.STDOUT, text=True)
        if p.returncode != 0:
            tail = p.stdout[-4000:]
            shutil.rmtree(dest, ignore_errors=True)
            raise RuntimeError(f"build ({flavour}) failed:\n{tail}")
        shutil.rmtree(os.path.join(dest, "build"), ignore_errors=True)
        with open(os.path.join(dest, ".ok"), "w") as fh:
            fh.write(f"{time.time() - t0:.1f}\n")
        if not quiet:
            print(f"[build] {key} in {time.time() - t0:.1f}s", flush=True)
        _prune(flavour, key)
        return os.path.join(dest, "src")
    finally:
        fcntl.flock(lock, fcntl.LOCK_UN)
        lock.close()


def child_env(src, flavour="plain", extra=None):
    env = dict(os.environ)
    env["PYTHONPATH"] = src + os.pathsep + VERIF
    env["PYTHONHASHSEED"] = "0"
    env["PYUNICORN_VERIF"] = "1"
    env["OMP_NUM_THREADS"] = "1"
    env["OPENBLAS_NUM_THREADS"] = "1"
    env["MKL_NUM_THREADS"] = "1"
    env["MPLBACKEND"] = "Agg"
    if flavour != "plain":
        env["LD_PRELOAD"] = asan_runtime()
    if extra:
        env.update(extra)
    return env


if __name__ == "__main__":
    fl = sys.argv[1] if len(sys.argv) > 1 else "plain"
    print(ensure(fl, quiet=False))
