"""Child process: run one shard of one check and write its JSON summary."""
import argparse
import faulthandler
import importlib
import json
import os
import sys
import time
import traceback


def main():
    ap = argparse.ArgumentParser()
    ap.add_argument("prop")
    ap.add_argument("--tier", default="quick")
    ap.add_argument("--seed", type=int, default=0)
    ap.add_argument("--shard", type=int, default=0)
    ap.add_argument("--nshards", type=int, default=1)
    ap.add_argument("--only-case", default=None)
    ap.add_argument("--budget", type=float, default=None)
    ap.add_argument("--wallcap", type=float, default=None)
    ap.add_argument("--resume-after", default=None)
    ap.add_argument("--progress", default=None)
    ap.add_argument("--out", required=True)
    a = ap.parse_args()
    faulthandler.enable()
    from pvm.ctx import Ctx
    ctx = Ctx(a.prop, a.tier, a.seed, a.shard, a.nshards, a.only_case)
    if a.resume_after is not None:
        ctx.resume_after = a.resume_after
        ctx._resuming = True
    if a.progress:
        ctx.progress_path = a.progress
        ctx.checkpoint_path = a.out
    if a.budget:
        ctx.cpu_budget = a.budget
        ctx.deadline = time.time() + (a.wallcap or a.budget)
    status = "ok"
    err = None
    # some library methods read/write files in the cwd: isolate per shard
    cwd = os.path.join(os.environ.get("PVM_TMP", "."), f"cwd{a.shard}")
    os.makedirs(cwd, exist_ok=True)
    a.out = os.path.abspath(a.out)
    if a.progress:
        a.progress = os.path.abspath(a.progress)
        ctx.progress_path = a.progress
        ctx.checkpoint_path = a.out
    os.chdir(cwd)
    cov = os.environ.get("PVM_FUNCCOV")
    seen = set()
    if cov and hasattr(sys, "monitoring"):
        # self-test aid: which Python-level library functions does this
        # check execute at all?  (one event per code object, then disabled)
        mon = sys.monitoring

        def on_start(code, _off):
            if "pyunicorn" in code.co_filename:
                seen.add((code.co_filename.split("pyunicorn/", 1)[-1],
                          code.co_qualname))
            return mon.DISABLE
        mon.use_tool_id(mon.COVERAGE_ID, "pvm-funccov")
        mon.register_callback(mon.COVERAGE_ID, mon.events.PY_START, on_start)
        mon.set_events(mon.COVERAGE_ID, mon.events.PY_START)
    try:
        mod = importlib.import_module("pvm.checks." + a.prop.lower())
        if hasattr(mod, "pre_import"):
            mod.pre_import()      # e.g. install the cache shadow hook
        import pyunicorn  # noqa
        ctx.note("pyunicorn_file", pyunicorn.__file__)
        mod.run(ctx)
    except BaseException as e:  # noqa
        status = "crashed"
        err = traceback.format_exc()[-3000:]
    if cov and seen:
        os.makedirs(cov, exist_ok=True)
        fn = os.path.join(cov, f"{a.prop}.{a.shard}.{os.getpid()}.json")
        with open(fn, "w") as fh:
            json.dump(sorted(seen), fh)
    d = ctx.dump()
    d["status"] = status
    d["error"] = err
    tmp = a.out + ".tmp"
    with open(tmp, "w") as fh:
        json.dump(d, fh)
    os.replace(tmp, a.out)
    sys.exit(0 if status == "ok" else 3)


if __name__ == "__main__":
    main()
