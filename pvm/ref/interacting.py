"""Sub-block definitions of the cross / internal measures of
``pyunicorn.core.interacting_networks.InteractingNetworks`` (property C11).
Never imports pyunicorn.

Everything is evaluated from the docstring definition with explicit loops on

  ``A``  dense 0/1 adjacency matrix of the *whole* network (A[i, j] = 1 <=>
         link i -> j; symmetric for an undirected network, empty diagonal),
  ``W``  dense link-attribute matrix (W[i, j] = attribute of link i -> j),
  ``D``  matrix of shortest path lengths of the whole network (paths may run
         through any node of the network, as all the docstrings say),
  ``w``  node weights,

and on node lists ``n1``, ``n2`` / ``nl`` that are used **in the order
given**: entry [a, b] of a cross matrix belongs to the nodes (n1[a], n2[b]),
entry [a] of a sequence to node n1[a].  (Docstrings: "node i in the first
subnetwork is linked to node j in the second subnetwork", ":rtype: 1D array
[node index]"; the doctests use increasing lists, for which position and rank
coincide -- the position is the only reading that also makes sense for the
cross matrices, which are plain fancy-indexed blocks.)

Conventions the docstrings leave open (library convention = definition;
each is the behaviour of the unchanged library, stated in a code comment or
visible in a doctest):

 C1  cross_closeness / internal_closeness: an unreachable target counts with
     the "maximum possible path length": (N - 1) with N the size of the whole
     network for the cross variant, (len(nl) - 1) for the internal variant;
     cross: len(n2) / sum, internal: (len(nl) - 1) / sum; 0 where the sum of
     the path lengths is 0.
 C2  cross_/internal_average_path_length: mean over the pairs joined by a
     path ("for which a path exists"); internal: ordered pairs a != b.  No
     joined pair: undefined (None).
 C3  cross_transitivity: 0 when there is no triple; cross_local_clustering:
     0 for cross degree < 2.
 C4  n.s.i. measures use A+ = A + identity and path lengths D+ = D + identity
     (Wiedermann et al. 2013, EPL 102, 28007; Heitzig et al. 2012); an
     unreachable target counts with length N - 1 in the n.s.i. cross
     closeness (same convention as C1).
 C5  nsi_cross_local_clustering: 0 for vanishing n.s.i. cross degree.
     nsi_cross_transitivity with no cross link at all is 0/0: undefined (None).
 C6  nsi_cross_average_path_length  L*_12 = sum_{v in 1, q in 2} w_v w_q
     d+_vq / (W_1 W_2)  is defined here for pairs of groups all of whose cross
     pairs are joined by a path.  For the others the docstring is silent and
     the library family documents two conventions: (a) leave the unreachable
     pairs out of numerator and normalisation (Network.nsi_average_path_length,
     C2), (b) count them with length N - 1 (C4).  Both are offered.
 C7  cross_betweenness = interregional betweenness (docstring): sum over
     ordered pairs (s, t) in n1 x n2, s != t, of the fraction of shortest
     s-t paths that contain v as an *inner* node.  n.s.i. variant: a path
     counts with the product of the weights of its inner nodes and the pair
     with w_s w_t, the result is divided by w_v  (Heitzig et al. 2012; the
     doctest values of nsi_cross_betweenness are reproduced, see selftest).
 C8  local_efficiency (interacting networks): mean over n2 of 1/d_vq with
     1/inf = 0;  global_efficiency: 1 / mean of the local efficiencies
     (docstrings give no formula; doctest values reproduced).
"""
import itertools
import math

import numpy as np

from pvm.ref import netmeasures as nm

INF = float("inf")


# --------------------------------------------------------------------------
# sub-blocks
# --------------------------------------------------------------------------
def block(M, n1, n2):
    """[[M[i, j] for j in n2] for i in n1] -- order as given."""
    M = np.asarray(M)
    out = np.zeros((len(n1), len(n2)), dtype=M.dtype)
    for a, i in enumerate(n1):
        for b, j in enumerate(n2):
            out[a, b] = M[i, j]
    return out


def cross_adjacency(A, n1, n2):
    return block((np.asarray(A) != 0).astype(np.int64), n1, n2)


def internal_adjacency(A, nl):
    return cross_adjacency(A, nl, nl)


def link_attribute_matrix(A, W):
    """attribute where there is a link, 0 elsewhere."""
    return np.where(np.asarray(A) != 0, np.asarray(W, dtype=float), 0.0)


def cross_link_attribute(A, W, n1, n2):
    return block(link_attribute_matrix(A, W), n1, n2)


def internal_link_attribute(A, W, nl):
    return cross_link_attribute(A, W, nl, nl)


def path_lengths(A, W=None):
    """Floyd-Warshall on the whole network (directed: from row to column)."""
    return nm.path_lengths(A, None if W is None else link_attribute_matrix(A, W))


def cross_path_lengths(D, n1, n2):
    return block(np.asarray(D, dtype=float), n1, n2)


def internal_path_lengths(D, nl):
    return cross_path_lengths(D, nl, nl)


# --------------------------------------------------------------------------
# link counts / densities
# --------------------------------------------------------------------------
def number_cross_links(A, n1, n2):
    return int(sum(1 for i in n1 for j in n2 if A[i, j]))


def cross_link_density(A, n1, n2):
    return number_cross_links(A, n1, n2) / (len(n1) * len(n2))


def number_internal_links(A, nl, directed):
    c = sum(1 for i in nl for j in nl if A[i, j])
    return int(c if directed else c // 2)


def internal_link_density(A, nl, directed):
    """links / possible links; undefined (None) for a single node."""
    N = len(nl)
    if N < 2:
        return None
    L = number_internal_links(A, nl, directed)
    return L / (N * (N - 1)) if directed else 2.0 * L / (N * (N - 1))


# --------------------------------------------------------------------------
# degrees and strengths
# --------------------------------------------------------------------------
def cross_outdegree(A, n1, n2, W=None):
    if W is None:
        return np.array([sum(1 for j in n2 if A[i, j]) for i in n1],
                        dtype=np.int64)
    return np.array([math.fsum(W[i, j] for j in n2 if A[i, j]) for i in n1])


def cross_indegree(A, n1, n2, W=None):
    if W is None:
        return np.array([sum(1 for j in n2 if A[j, i]) for i in n1],
                        dtype=np.int64)
    return np.array([math.fsum(W[j, i] for j in n2 if A[j, i]) for i in n1])


def cross_degree(A, n1, n2, directed, W=None):
    if directed:
        return cross_indegree(A, n1, n2, W) + cross_outdegree(A, n1, n2, W)
    return cross_outdegree(A, n1, n2, W)


def internal_outdegree(A, nl, W=None):
    return cross_outdegree(A, nl, nl, W)


def internal_indegree(A, nl, W=None):
    return cross_indegree(A, nl, nl, W)


def internal_degree(A, nl, directed, W=None):
    return cross_degree(A, nl, nl, directed, W)


def total_cross_degree(A, n1, n2, directed):
    return float(np.mean(cross_degree(A, n1, n2, directed)))


def cross_degree_density(A, n1, n2, directed):
    return cross_degree(A, n1, n2, directed) / float(len(n2))


# --------------------------------------------------------------------------
# cross clustering / transitivity (undirected), brute force
# --------------------------------------------------------------------------
def _cross_triples_triangles(A, v, n2):
    nb = [q for q in n2 if A[v, q] and q != v]
    triples = 0
    triangles = 0
    for p, q in itertools.combinations(nb, 2):
        triples += 1
        if A[p, q]:
            triangles += 1
    return triples, triangles


def cross_local_clustering(A, n1, n2):
    out = np.zeros(len(n1))
    for a, v in enumerate(n1):
        tr, tg = _cross_triples_triangles(A, v, n2)
        out[a] = tg / tr if tr else 0.0                       # C3
    return out


def cross_global_clustering(A, n1, n2):
    return float(np.mean(cross_local_clustering(A, n1, n2)))


def cross_transitivity(A, n1, n2):
    T = G = 0
    for v in n1:
        tr, tg = _cross_triples_triangles(A, v, n2)
        T += tr
        G += tg
    return G / T if T else 0.0                                # C3


def internal_global_clustering(A, nl):
    """mean over nl of the local clustering *of the whole network*."""
    c = nm.local_clustering(A)
    return float(np.mean([c[i] for i in nl]))


# --------------------------------------------------------------------------
# path based
# --------------------------------------------------------------------------
def cross_average_path_length(D, n1, n2):
    v = [D[i, j] for i in n1 for j in n2 if np.isfinite(D[i, j])]
    return math.fsum(v) / len(v) if v else None               # C2


def internal_average_path_length(D, nl):
    v = [D[i, j] for a, i in enumerate(nl) for b, j in enumerate(nl)
         if a != b and np.isfinite(D[i, j])]
    return math.fsum(v) / len(v) if v else None               # C2


def cross_closeness(D, n1, n2, N):
    out = np.zeros(len(n1))
    for a, i in enumerate(n1):
        s = math.fsum(D[i, j] if np.isfinite(D[i, j]) else N - 1
                      for j in n2)                            # C1
        out[a] = len(n2) / s if s != 0 else 0.0
    return out


def internal_closeness(D, nl):
    M = len(nl)
    out = np.zeros(M)
    for a, i in enumerate(nl):
        s = math.fsum(D[i, j] if np.isfinite(D[i, j]) else M - 1
                      for j in nl)                            # C1
        out[a] = (M - 1) / s if s != 0 else 0.0
    return out


def average_cross_closeness(D, n1, n2, N):
    return float(np.mean(cross_closeness(D, n1, n2, N)))


def local_efficiency(D, n1, n2):
    """C8; only for disjoint groups (no zero path length)."""
    return np.array([math.fsum(1.0 / D[i, j] for j in n2
                               if np.isfinite(D[i, j])) / len(n2)
                     for i in n1])


def global_efficiency(D, n1, n2):
    m = float(np.mean(local_efficiency(D, n1, n2)))
    return 1.0 / m if m != 0 else None


# --------------------------------------------------------------------------
# betweenness restricted to source / target sets (undirected networks)
# --------------------------------------------------------------------------
def weighted_path_counts(A, D, w=None):
    """P[s, t] = sum over the shortest s-t paths of the product of the
    weights of their inner nodes (w = None: 1, i.e. the number of shortest
    paths); P[s, s] = 1, 0 where there is no path.  Exact for unit weights."""
    A = np.asarray(A)
    n = len(A)
    P = np.zeros((n, n))
    for s in range(n):
        P[s, s] = 1.0
        order = sorted((v for v in range(n) if v != s and np.isfinite(D[s, v])),
                       key=lambda v: D[s, v])
        for v in order:
            acc = []
            for u in range(n):
                if A[u, v] and D[s, u] + 1 == D[s, v]:
                    wu = 1.0 if (u == s or w is None) else w[u]
                    acc.append(P[s, u] * wu)
            P[s, v] = math.fsum(acc)
    return P


def interregional_betweenness(A, D, P, sources, targets, w=None):
    """C7.  b_v = (1/w_v) sum_{s in S, t in T, s != t, v not in {s,t}}
    w_s w_t * [weight of shortest s-t paths through v] / [weight of all],
    where the paths through v weigh P[s, v] * w_v * P[v, t]."""
    n = len(A)
    b = np.zeros(n)
    for v in range(n):
        acc = []
        for s in sources:
            if s == v:
                continue
            for t in targets:
                if t == v or t == s or not np.isfinite(D[s, t]):
                    continue
                if D[s, v] + D[v, t] != D[s, t]:
                    continue
                ws = 1.0 if w is None else w[s] * w[t]
                acc.append(ws * P[s, v] * P[v, t] / P[s, t])
        b[v] = math.fsum(acc)
    return b


def interregional_betweenness_by_enumeration(A, sources, targets, w=None):
    """Literal form of C7: enumerate every shortest path (depth-first over all
    simple paths, keeping the shortest per pair).  Exponential; tiny graphs
    only -- used to check the pair-product form above against itself."""
    A = np.asarray(A)
    n = len(A)
    best = {}

    def walk(path):
        s, t = path[0], path[-1]
        if s != t:
            L = len(path) - 1
            cur = best.get((s, t))
            if cur is None or L < cur[0]:
                best[(s, t)] = (L, [tuple(path)])
            elif L == cur[0]:
                cur[1].append(tuple(path))
        for v in range(n):
            if A[t, v] and v not in path:
                walk(path + [v])

    for s in range(n):
        walk([s])
    b = np.zeros(n)
    for s in sources:
        for t in targets:
            if s == t or (s, t) not in best:
                continue
            paths = best[(s, t)][1]

            def pw(p):
                return 1.0 if w is None else float(
                    np.prod([w[x] for x in p[1:-1]]))
            tot = math.fsum(pw(p) for p in paths)
            wst = 1.0 if w is None else w[s] * w[t]
            for p in paths:
                for v in p[1:-1]:
                    b[v] += wst * pw(p) / tot / (1.0 if w is None else w[v])
    return b


# --------------------------------------------------------------------------
# n.s.i. cross measures (Wiedermann et al. 2013), undirected networks
# --------------------------------------------------------------------------
def _aplus(A, i, j):
    return 1 if i == j else int(A[i, j] != 0)


def nsi_cross_degree(A, w, n1, n2):
    """k*_v = sum_{q in 2} a+_vq w_q."""
    return np.array([math.fsum(w[q] for q in n2 if _aplus(A, v, q))
                     for v in n1])


def nsi_internal_degree(A, w, nl):
    return nsi_cross_degree(A, w, nl, nl)


def nsi_cross_mean_degree(A, w, n1, n2):
    """sum_v w_v k*_v / W_1."""
    k = nsi_cross_degree(A, w, n1, n2)
    return math.fsum(w[v] * k[a] for a, v in enumerate(n1)) / \
        math.fsum(w[v] for v in n1)


def nsi_cross_edge_density(A, w, n1, n2):
    """sum_{v in 1, q in 2} w_v a+_vq w_q / (W_1 W_2)."""
    num = math.fsum(w[v] * w[q] for v in n1 for q in n2 if _aplus(A, v, q))
    return num / (math.fsum(w[v] for v in n1) * math.fsum(w[q] for q in n2))


def _nsi_triangle_weight(A, w, v, n2):
    return math.fsum(w[p] * w[q] for p in n2 for q in n2
                     if _aplus(A, v, p) and _aplus(A, p, q)
                     and _aplus(A, q, v))


def nsi_cross_local_clustering(A, w, n1, n2):
    """C*_v = sum_{p,q in 2} a+_vp w_p a+_pq w_q a+_qv / (k*_v)^2."""
    k = nsi_cross_degree(A, w, n1, n2)
    out = np.zeros(len(n1))
    for a, v in enumerate(n1):
        if k[a] != 0:                                         # C5
            out[a] = _nsi_triangle_weight(A, w, v, n2) / k[a] ** 2
    return out


def nsi_internal_local_clustering(A, w, nl):
    return nsi_cross_local_clustering(A, w, nl, nl)


def nsi_cross_global_clustering(A, w, n1, n2):
    c = nsi_cross_local_clustering(A, w, n1, n2)
    return math.fsum(w[v] * c[a] for a, v in enumerate(n1)) / \
        math.fsum(w[v] for v in n1)


def nsi_cross_transitivity(A, w, n1, n2):
    """sum_v w_v sum_pq a+_vp w_p a+_pq w_q a+_qv / sum_v w_v (k*_v)^2."""
    k = nsi_cross_degree(A, w, n1, n2)
    num = math.fsum(w[v] * _nsi_triangle_weight(A, w, v, n2) for v in n1)
    den = math.fsum(w[v] * k[a] ** 2 for a, v in enumerate(n1))
    return num / den if den != 0 else None                    # C5


def _dplus(D, i, j, N):
    if i == j:
        return 1.0
    return D[i, j] if np.isfinite(D[i, j]) else float(N - 1)  # C4


def nsi_cross_closeness_centrality(D, w, n1, n2):
    """W_2 / sum_{q in 2} w_q d+_vq."""
    N = len(D)
    W2 = math.fsum(w[q] for q in n2)
    return np.array([W2 / math.fsum(w[q] * _dplus(D, v, q, N) for q in n2)
                     for v in n1])


def nsi_internal_closeness_centrality(D, w, nl):
    return nsi_cross_closeness_centrality(D, w, nl, nl)


def cross_pairs_connected(D, n1, n2):
    return all(np.isfinite(D[i, j]) for i in n1 for j in n2)


def nsi_cross_average_path_length(D, w, n1, n2, norm="W1W2"):
    """C6, all cross pairs joined by a path.  norm='W1W1' evaluates the same
    sum with the first group's total weight squared (only used to *name* a
    deviation, never as the oracle)."""
    N = len(D)
    num = math.fsum(w[v] * w[q] * _dplus(D, v, q, N) for v in n1 for q in n2)
    W1 = math.fsum(w[v] for v in n1)
    W2 = math.fsum(w[q] for q in n2)
    return num / (W1 * (W2 if norm == "W1W2" else W1))


def nsi_cross_average_path_length_disconnected(D, w, n1, n2):
    """C6: the two documented conventions for unreachable pairs ->
    (exclude, count-as-N-1); first entry None if no cross pair is joined."""
    N = len(D)
    fin = [(v, q) for v in n1 for q in n2 if v == q or np.isfinite(D[v, q])]
    den = math.fsum(w[v] * w[q] for v, q in fin)
    a = math.fsum(w[v] * w[q] * _dplus(D, v, q, N) for v, q in fin) / den \
        if fin else None
    b = nsi_cross_average_path_length(D, w, n1, n2)
    return a, b


# --------------------------------------------------------------------------
# self-test against documented / textbook values
# --------------------------------------------------------------------------
SMALL_A = np.array([[0, 0, 0, 1, 1, 1], [0, 0, 1, 1, 1, 0], [0, 1, 0, 0, 1, 0],
                    [1, 1, 0, 0, 0, 0], [1, 1, 1, 0, 0, 0],
                    [1, 0, 0, 0, 0, 0]])
SMALL_W = np.array([[0, 0, 0, 1.3, 2.5, 1.1], [0, 0, 2.3, 2.9, 2.7, 0],
                    [0, 2.3, 0, 0, 1.5, 0], [1.3, 2.9, 0, 0, 0, 0],
                    [2.5, 2.7, 1.5, 0, 0, 0], [1.1, 0, 0, 0, 0, 0]])
SMALL_NW = np.array([0.6, 0.8, 1.0, 1.2, 1.4, 1.6])


def selftest():
    """Doctest values of the library's docstrings (6-node test network with
    node weights 0.6 .. 1.6) and closed forms.  Returns a list of failures."""
    A, w = SMALL_A, SMALL_NW
    D = path_lengths(A)
    bad = []

    def chk(name, got, want, tol=6e-5):
        got = np.asarray(got, dtype=float)
        want = np.asarray(want, dtype=float)
        if got.shape != want.shape or not np.all(np.abs(got - want) <= tol):
            bad.append((name, got.tolist(), want.tolist()))

    chk("cross_adjacency", cross_adjacency(A, [1, 2, 4], [0, 3, 5]),
        [[0, 1, 0], [0, 0, 0], [1, 0, 0]])
    chk("cross_link_attribute",
        cross_link_attribute(A, SMALL_W, [1, 2, 3], [0, 4]),
        [[0, 2.7], [0, 1.5], [1.3, 0]])
    chk("cross_path_lengths", cross_path_lengths(D, [0, 3, 5], [1, 2, 4]),
        [[2, 2, 1], [1, 2, 2], [3, 3, 2]])
    chk("number_cross_links", number_cross_links(A, [0, 5], [1, 2, 3, 4]), 2)
    chk("cross_link_density", cross_link_density(A, [0, 3, 5], [1, 2, 4]),
        0.2222)
    chk("internal_link_density",
        internal_link_density(A, [1, 2, 3, 4], False), 0.6667)
    chk("internal_global_clustering",
        internal_global_clustering(A, [1, 2, 4]), 0.5556)
    chk("cross_global_clustering",
        cross_global_clustering(A, [3, 4], [1, 2]), 0.5)
    chk("cross_transitivity", cross_transitivity(A, [3, 4], [1, 2]), 1.0)
    chk("cross_local_clustering",
        cross_local_clustering(A, [3, 4], [1, 2]), [0, 1])
    chk("cross_average_path_length",
        cross_average_path_length(D, [0, 5], [1, 2, 3, 4]), 2.0)
    chk("internal_average_path_length",
        internal_average_path_length(D, [0, 3, 5]), 1.3333)
    chk("average_cross_closeness",
        average_cross_closeness(D, [0, 5], [1, 2, 3, 4], 6), 0.5333)
    chk("cross_closeness", cross_closeness(D, [0, 3, 5], [1, 2, 4], 6),
        [0.6, 0.6, 0.375])
    chk("internal_closeness", internal_closeness(D, [0, 3, 5]),
        [1, 0.66667, 0.66667])
    chk("local_efficiency", local_efficiency(D, [0, 5], [1, 2, 3, 4]),
        [0.75, 0.41666667])
    chk("global_efficiency", global_efficiency(D, [0, 5], [1, 2, 3, 4]),
        1.7143)
    P = weighted_path_counts(A, D)
    chk("cross_betweenness",
        interregional_betweenness(A, D, P, [2], [3, 5]), [1, 1, 0, 0, 1, 0])
    chk("internal_betweenness",
        interregional_betweenness(A, D, P, range(6), range(6)),
        [9, 3, 0, 2, 6, 0])
    chk("betweenness-enum",
        interregional_betweenness_by_enumeration(A, range(6), range(6)),
        [9, 3, 0, 2, 6, 0])
    Pw = weighted_path_counts(A, D, w)
    chk("nsi_cross_betweenness",
        interregional_betweenness(A, D, Pw, [0, 4, 5], [1, 3], w),
        [6.5333, 1.2, 0, 0.6769, 0.6769, 0])
    chk("nsi_cross_betweenness-2",
        interregional_betweenness(A, D, Pw, [0, 1], [2, 3, 4, 5], w),
        [2.1333, 0, 0, 0.4923, 0.9209, 0])
    chk("nsi_cross_betweenness-enum",
        interregional_betweenness_by_enumeration(A, [0, 1], [2, 3, 4, 5], w),
        [2.1333, 0, 0, 0.4923, 0.9209, 0])
    w2 = np.array([1.5, 1.7, 1.9, 2.1, 2.3, 2.5])  # Network.SmallTestNetwork
    chk("nsi_interregional", interregional_betweenness(
        A, D, weighted_path_counts(A, D, w2), [2], [3, 5], w2),
        [3.1667, 2.3471, 0, 0, 2.0652, 0])
    chk("nsi_betweenness", interregional_betweenness(
        A, D, weighted_path_counts(A, D, w2), range(6), range(6), w2),
        [29.6854, 7.7129, 0, 3.0909, 9.6996, 0])
    chk("nsi_cross_degree", nsi_cross_degree(A, w, [0, 1, 2], [3, 4, 5]),
        [4.2, 2.6, 1.4])
    chk("nsi_cross_degree-2", nsi_cross_degree(A, w, [0, 2, 5], [1, 4]),
        [1.4, 2.2, 0.0])
    chk("nsi_cross_mean_degree",
        nsi_cross_mean_degree(A, w, [0, 1, 2], [3, 4, 5]), 2.5)
    chk("nsi_cross_mean_degree-2",
        nsi_cross_mean_degree(A, w, [0, 2, 5], [1, 4]), 0.95)
    chk("nsi_internal_degree", nsi_internal_degree(A, w, [0, 1, 3, 5]),
        [3.4, 2.0, 2.6, 2.2])
    chk("nsi_cross_local_clustering",
        nsi_cross_local_clustering(A, w, [0, 1, 2], [3, 4, 5]),
        [0.33786848, 0.50295858, 1.0])
    chk("nsi_cross_local_clustering-2",
        nsi_cross_local_clustering(A, w, [0, 2, 5], [1, 4]), [1, 1, 0])
    chk("nsi_internal_local_clustering",
        nsi_internal_local_clustering(A, w, [0, 2, 4]),
        [1.0, 1.0, 0.86666667])
    chk("nsi_cross_closeness_centrality",
        nsi_cross_closeness_centrality(D, w, [0, 2, 5], [1, 4]),
        [0.73333333, 1.0, 0.42307692])
    chk("nsi_internal_closeness_centrality",
        nsi_internal_closeness_centrality(D, w, [0, 1, 3, 5]),
        [0.84, 0.525, 0.72413793, 0.6])
    chk("nsi_cross_global_clustering",
        nsi_cross_global_clustering(A, w, [0, 1, 2], [3, 4, 5]), 0.6688)
    chk("nsi_cross_edge_density",
        nsi_cross_edge_density(A, w, [1, 2, 3], [0, 5]), 0.1091)
    chk("nsi_cross_edge_density-2",
        nsi_cross_edge_density(A, w, [0], [1, 4, 5]), 0.7895)
    chk("nsi_cross_transitivity",
        nsi_cross_transitivity(A, w, [1, 2], [0, 3, 4, 5]), 0.6352)
    chk("nsi_cross_transitivity-2",
        nsi_cross_transitivity(A, w, [0, 2, 3], [1]), 1.0)
    # closed forms: complete bipartite K_{2,3}, unit weights
    K = np.zeros((5, 5), int)
    for i in (0, 1):
        for j in (2, 3, 4):
            K[i, j] = K[j, i] = 1
    DK = path_lengths(K)
    u = np.ones(5)
    chk("K23-density", cross_link_density(K, [0, 1], [2, 3, 4]), 1.0, 0)
    chk("K23-clust", cross_local_clustering(K, [0, 1], [2, 3, 4]), [0, 0], 0)
    chk("K23-apl", cross_average_path_length(DK, [1, 0], [4, 2, 3]), 1.0, 0)
    chk("K23-nsi-apl",
        nsi_cross_average_path_length(DK, u, [0, 1], [2, 3, 4]), 1.0, 1e-15)
    chk("K23-nsi-dens", nsi_cross_edge_density(K, u, [0, 1], [2, 3, 4]), 1.0,
        1e-15)
    PK = weighted_path_counts(K, DK)
    chk("K23-betw", interregional_betweenness(K, DK, PK, [2], [3, 4]),
        [1, 1, 0, 0, 0], 1e-15)
    # order of the node list is the order of the result
    chk("order", cross_outdegree(A, [5, 0, 3], [4, 1, 2]), [0, 1, 1], 0)
    chk("order-int", internal_adjacency(A, [5, 0, 3]),
        [[0, 1, 0], [1, 0, 1], [0, 1, 0]], 0)
    return bad
