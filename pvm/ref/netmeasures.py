"""Naive reference implementations of the structural network measures of
``pyunicorn.core.network.Network`` (property C03).  Never imports pyunicorn.

Everything is evaluated straight from the definition on a dense 0/1 adjacency
matrix ``A`` (``A[i, j] == 1``  <=>  link i -> j; symmetric when the network is
undirected) by explicit loops / enumeration / dense linear algebra.  Speed is
irrelevant (n <= 40).  Where a docstring leaves a convention open, the
convention the library documents (docstring text or doctest example) is
written down next to the function and *is* the definition.

``W`` is always a dense matrix of link attributes, ``W[i, j]`` = attribute of
the link i -> j (zero/ignored where ``A[i, j] == 0``).
"""
import itertools
import math

import numpy as np

INF = float("inf")


def _adj(A):
    A = (np.asarray(A) != 0).astype(np.int64)
    assert A.ndim == 2 and A.shape[0] == A.shape[1]
    assert not A.diagonal().any()
    return A


def closure(A):
    """Undirected version: i ~ j iff i -> j or j -> i."""
    A = _adj(A)
    return ((A + A.T) > 0).astype(np.int64)


def neighbours(U, i):
    return [j for j in range(len(U)) if U[i, j]]


# --------------------------------------------------------------------------
# degrees and strengths
# --------------------------------------------------------------------------
# Library convention (docstrings of degree/indegree/outdegree/bildegree):
#   outdegree_i = #{j : i -> j},  indegree_i = #{j : j -> i},
#   degree = in + out for a directed network (a reciprocated pair counts
#   twice), = number of neighbours for an undirected one,
#   bildegree_i = #{j : i -> j and j -> i}.
#   With a link attribute ``key`` the strengths are the sums of the attribute
#   over the same link sets; the "bilateral strength" is sum_j w_ij * w_ji
#   (the docstring only says "associated bilateral strength"; the product
#   form is the library's documented-by-code convention and reduces to the
#   bilateral degree for unit weights).

def outdegree(A, W=None):
    A = _adj(A)
    n = len(A)
    if W is None:
        return np.array([sum(1 for j in range(n) if A[i, j])
                         for i in range(n)], dtype=np.int64)
    return np.array([math.fsum(W[i, j] for j in range(n) if A[i, j])
                     for i in range(n)])


def indegree(A, W=None):
    A = _adj(A)
    n = len(A)
    if W is None:
        return np.array([sum(1 for j in range(n) if A[j, i])
                         for i in range(n)], dtype=np.int64)
    return np.array([math.fsum(W[j, i] for j in range(n) if A[j, i])
                     for i in range(n)])


def degree(A, directed, W=None):
    if directed:
        return indegree(A, W) + outdegree(A, W)
    return outdegree(A, W)


def bildegree(A, W=None):
    A = _adj(A)
    n = len(A)
    if W is None:
        return np.array([sum(1 for j in range(n) if A[i, j] and A[j, i])
                         for i in range(n)], dtype=np.int64)
    return np.array([math.fsum(W[i, j] * W[j, i] for j in range(n)
                               if A[i, j] and A[j, i]) for i in range(n)])


# --------------------------------------------------------------------------
# degree distributions
# --------------------------------------------------------------------------
# Docstring text: "Entry [k] is the number of nodes having degree k" (cdf:
# "... degree k or more"); the doctest examples show *relative* frequencies
# and, for degrees (1,2,3), a vector that starts at the smallest occurring
# degree.  Both alignments are accepted:
#   reading "index":  p[k] = #{i: k_i == k} / N          for k = 0 .. kmax
#   reading "from-min": the same vector without the leading entries k < kmin
# They coincide iff kmin == 0.  The cdf is the tail sum of the same vector.

def degree_distribution_readings(k):
    k = [int(v) for v in k]
    n = len(k)
    kmax, kmin = max(k), min(k)
    full = np.array([sum(1 for v in k if v == d) for d in range(kmax + 1)],
                    dtype=float) / n
    return [full, full[kmin:]]


def degree_cdf_readings(k):
    k = [int(v) for v in k]
    n = len(k)
    kmax, kmin = max(k), min(k)
    full = np.array([sum(1 for v in k if v >= d) for d in range(kmax + 1)],
                    dtype=float) / n
    return [full, full[kmin:]]


# --------------------------------------------------------------------------
# neighbour degrees
# --------------------------------------------------------------------------
# "(Does not use directionality information.)": neighbours of i are all nodes
# linked to i in either direction.  The *average* of the neighbours' degrees
# is sum_{j in N(i)} k_j / |N(i)|.  For a directed network the docstring does
# not say whether k_j is the total degree (in+out, what ``degree()`` returns)
# or the degree in the undirected version; both are accepted.  Nodes without
# neighbours: the average is undefined (entry not compared); the maximum is 0
# (library convention).

def neighbour_degree_readings(A, directed):
    U = closure(A)
    ks = [U.sum(axis=1)]
    if directed:
        ks.append(degree(A, True))
    return U, ks


def average_neighbors_degree(A, directed):
    """-> (list of acceptable vectors, mask of nodes where it is defined)"""
    U, ks = neighbour_degree_readings(A, directed)
    n = len(U)
    out = []
    for k in ks:
        v = np.zeros(n)
        for i in range(n):
            nb = neighbours(U, i)
            if nb:
                v[i] = math.fsum(float(k[j]) for j in nb) / len(nb)
        out.append(v)
    return out, U.sum(axis=1) > 0


def max_neighbors_degree(A, directed):
    U, ks = neighbour_degree_readings(A, directed)
    n = len(U)
    out = []
    for k in ks:
        out.append(np.array([max([int(k[j]) for j in neighbours(U, i)],
                                 default=0) for i in range(n)]))
    return out


# --------------------------------------------------------------------------
# clustering, transitivity, cliquishness
# --------------------------------------------------------------------------
# local_clustering: "the proportion of all pairs of its neighbors which are
# themselves interlinked"; nodes with fewer than two neighbours get 0 (library
# maps igraph's NaN to 0).  For a directed network the measure is evaluated on
# the undirected version (neighbour = linked in either direction, interlinked
# = linked in either direction): this is the only reading of the sentence that
# does not need an extra convention.
# global_clustering: mean of the local coefficients over *all* nodes.
# transitivity: 3 * triangles / connected triples (undefined without triples).

def local_clustering(A):
    U = closure(A)
    n = len(U)
    C = np.zeros(n)
    for i in range(n):
        nb = neighbours(U, i)
        k = len(nb)
        if k >= 2:
            t = sum(1 for a, b in itertools.combinations(nb, 2) if U[a, b])
            C[i] = t / (k * (k - 1) / 2)
    return C


def global_clustering(A):
    return float(np.mean(local_clustering(A)))


def count_triangles(U):
    n = len(U)
    return sum(1 for a, b, c in itertools.combinations(range(n), 3)
               if U[a, b] and U[b, c] and U[a, c])


def transitivity(A):
    """None where undefined (no connected triple)."""
    U = closure(A)
    k = U.sum(axis=1)
    triples = sum(int(v) * (int(v) - 1) // 2 for v in k)
    if triples == 0:
        return None
    return 3.0 * count_triangles(U) / triples


def _count_cliques(U, cand, r):
    """Number of r-cliques inside the (sorted) candidate list."""
    if r == 0:
        return 1
    if r == 1:
        return len(cand)
    tot = 0
    for idx, v in enumerate(cand):
        rest = [u for u in cand[idx + 1:] if U[v, u]]
        if len(rest) >= r - 1:
            tot += _count_cliques(U, rest, r - 1)
    return tot


def higher_order_transitivity(A, order):
    """order * (number of order-cliques) / (number of order-stars); a star of
    n nodes is a centre with n-1 of its neighbours, i.e. sum_v C(k_v, n-1).
    0 without stars (library convention).  Order 3 is the transitivity."""
    U = closure(A)
    n = len(U)
    k = [int(v) for v in U.sum(axis=1)]
    stars = sum(math.comb(v, order - 1) for v in k)
    if stars == 0:
        return 0.0
    cl = _count_cliques(U, list(range(n)), order)
    return order * cl / stars


def local_cliquishness(A, order):
    """(number of order-cliques containing i) / C(k_i, order-1), i.e. the
    fraction of (order-1)-subsets of the neighbourhood that are cliques; 0 if
    k_i < order-1.  Undirected networks only."""
    U = closure(A)
    n = len(U)
    out = np.zeros(n)
    for i in range(n):
        nb = neighbours(U, i)
        k = len(nb)
        if k >= order - 1:
            out[i] = _count_cliques(U, nb, order - 1) / math.comb(k, order - 1)
    return out


# --------------------------------------------------------------------------
# motif clustering (Fagiolo 2007, as used by Zemp et al. 2014)
# --------------------------------------------------------------------------
#   cycle : closed  i->j->k->i            / (kin*kout - kbil)
#   mid   : i->j, k->j, k->i  (i in the middle of k->i->j, closed by k->j)
#                                         / (kin*kout - kbil)
#   in    : j->i, k->i, j->k              / (kin*(kin-1))
#   out   : i->j, i->k, j->k              / (kout*(kout-1))
# counted over ordered pairs (j,k); 0 where the denominator vanishes.
# With a link attribute every link enters with weight w^(1/3) (so a triangle
# contributes the geometric mean of its weights) while the denominators stay
# the unweighted degree expressions.

def motif_clustering(A, kind, W=None):
    A = _adj(A)
    n = len(A)
    if W is None:
        M = A.astype(float)
    else:
        M = np.where(A != 0, np.cbrt(np.asarray(W, dtype=float)), 0.0)
    kin, kout, kbil = indegree(A), outdegree(A), bildegree(A)
    out = np.zeros(n)
    for i in range(n):
        terms = []
        for j in range(n):
            for k in range(n):
                if kind == "cycle":
                    t = M[i, j] * M[j, k] * M[k, i]
                elif kind == "mid":
                    t = M[i, j] * M[k, j] * M[k, i]
                elif kind == "in":
                    t = M[j, i] * M[j, k] * M[k, i]
                elif kind == "out":
                    t = M[i, j] * M[j, k] * M[i, k]
                else:
                    raise ValueError(kind)
                if t:
                    terms.append(t)
        if kind in ("cycle", "mid"):
            T = int(kin[i]) * int(kout[i]) - int(kbil[i])
        elif kind == "in":
            T = int(kin[i]) * (int(kin[i]) - 1)
        else:
            T = int(kout[i]) * (int(kout[i]) - 1)
        out[i] = math.fsum(terms) / T if T != 0 else 0.0
    return out


# --------------------------------------------------------------------------
# shortest paths
# --------------------------------------------------------------------------
# path_lengths[i, j]: length of a shortest path *from i to j along the link
# directions*, inf if there is none, 0 on the diagonal; link lengths 1 or the
# link attribute.

def path_lengths(A, W=None):
    A = _adj(A)
    n = len(A)
    D = np.full((n, n), INF)
    for i in range(n):
        for j in range(n):
            if A[i, j]:
                D[i, j] = 1.0 if W is None else float(W[i, j])
        D[i, i] = 0.0
    for k in range(n):          # Floyd-Warshall
        D = np.minimum(D, D[:, [k]] + D[[k], :])
    return D


def average_path_length(D):
    """Mean over ordered pairs i != j joined by a path; None if none."""
    n = len(D)
    v = [D[i, j] for i in range(n) for j in range(n)
         if i != j and np.isfinite(D[i, j])]
    return math.fsum(v) / len(v) if v else None


def diameter(D):
    """Largest finite shortest-path length (0 for an edgeless graph)."""
    return float(np.max(D[np.isfinite(D)]))


def closeness(D):
    """(N-1) / sum_j d(i,j): inverse mean distance *from* i to the others.
    Only defined when every node reaches every other one (caller checks)."""
    n = len(D)
    return np.array([(n - 1) / math.fsum(D[i, j] for j in range(n) if j != i)
                     for i in range(n)])


def global_efficiency(D):
    """mean over ordered pairs i != j of 1/d(i,j), 1/inf = 0  (Costa 2007)."""
    n = len(D)
    return math.fsum(1.0 / D[i, j] for i in range(n) for j in range(n)
                     if i != j and np.isfinite(D[i, j])) / (n * (n - 1))


def local_vulnerability(A, W=None):
    """V_i = (E - E_i)/E with E_i the global efficiency of the network with
    node i (and its links) removed (Costa 2007).  Needs N >= 3 and E > 0."""
    A = _adj(A)
    n = len(A)
    E = global_efficiency(path_lengths(A, W))
    out = np.zeros(n)
    for i in range(n):
        keep = [j for j in range(n) if j != i]
        Ai = A[np.ix_(keep, keep)]
        Wi = None if W is None else np.asarray(W)[np.ix_(keep, keep)]
        out[i] = (E - global_efficiency(path_lengths(Ai, Wi))) / E
    return out


# --------------------------------------------------------------------------
# shortest-path betweenness
# --------------------------------------------------------------------------
# sigma[s, t] = number of shortest s->t paths, obtained layer by layer from
# the distance matrix; a node v (link u->v) lies on sigma_sv*sigma_vt
# (sigma_su*sigma_vt) of them iff the distances add up.  This pair-product
# form is independent of the accumulation recursions (Brandes / Newman 2001)
# the library and igraph use.
#   betweenness_v = sum_{s != v != t, s != t} sigma_st(v)/sigma_st over
#       ordered pairs for directed networks, unordered pairs for undirected
#       ones (doctest: star centre etc.; end points never count).
#   interregional_betweenness(S, T)_v = the same sum over ordered pairs
#       (s, t) in S x T, s != t, v not in {s, t}  (doctest: S = T = all nodes
#       gives twice the betweenness).
#   link_betweenness: "(Does not respect directionality of links.)" -> edge
#       betweenness of the undirected version, unordered pairs, written to
#       [i, j] and [j, i]; 0 where there is no link.

def path_counts(A):
    """-> (D, S): distances and numbers of shortest paths (exact integers,
    returned as float64; < 2**53 for the graph sizes used here)."""
    A = _adj(A)
    n = len(A)
    D = path_lengths(A)
    S = [[0] * n for _ in range(n)]
    for s in range(n):
        S[s][s] = 1
        order = sorted((v for v in range(n) if v != s and np.isfinite(D[s, v])),
                       key=lambda v: D[s, v])
        for v in order:
            S[s][v] = sum(S[s][u] for u in range(n)
                          if A[u, v] and D[s, u] + 1 == D[s, v])
    assert max(max(r) for r in S) < 2 ** 53
    return D, np.array(S, dtype=float)


def interregional_betweenness(A, sources, targets):
    D, S = path_counts(A)
    n = len(D)
    src = np.zeros(n, bool)
    src[list(sources)] = True
    tgt = np.zeros(n, bool)
    tgt[list(targets)] = True
    pair = src[:, None] & tgt[None, :] & np.isfinite(D) & ~np.eye(n, dtype=bool)
    b = np.zeros(n)
    with np.errstate(invalid="ignore", divide="ignore"):
        for v in range(n):
            on = pair & (D[:, [v]] + D[[v], :] == D)
            on[v, :] = False          # v is not an end point
            on[:, v] = False
            frac = S[:, [v]] * S[[v], :] / S
            b[v] = math.fsum(frac[on])
    return b


def betweenness(A, directed):
    n = len(A)
    b = interregional_betweenness(A, range(n), range(n))
    return b if directed else b / 2.0


def link_betweenness(A):
    U = closure(A)
    D, S = path_counts(U)
    n = len(U)
    B = np.zeros((n, n))
    up = np.triu(np.ones((n, n), bool), 1) & np.isfinite(D)   # pairs s < t
    with np.errstate(invalid="ignore", divide="ignore"):
        for u in range(n):
            for v in range(u + 1, n):
                if not U[u, v]:
                    continue
                # s .. u - v .. t   or   s .. v - u .. t
                on1 = up & (D[:, [u]] + 1 + D[[v], :] == D)
                on2 = up & (D[:, [v]] + 1 + D[[u], :] == D)
                f1 = S[:, [u]] * S[[v], :] / S
                f2 = S[:, [v]] * S[[u], :] / S
                B[u, v] = B[v, u] = math.fsum(f1[on1]) + math.fsum(f2[on2])
    return B


def betweenness_by_enumeration(A, directed):
    """Literal definition: enumerate every simple path, keep the shortest ones
    per ordered pair.  Exponential; used on tiny graphs to check the oracle
    above against itself."""
    A = _adj(A)
    n = len(A)
    best = {}

    def walk(path):
        s, t = path[0], path[-1]
        if s != t:
            L = len(path) - 1
            cur = best.get((s, t))
            if cur is None or L < cur[0]:
                best[(s, t)] = (L, [tuple(path)])
            elif L == cur[0]:
                cur[1].append(tuple(path))
        for v in range(n):
            if A[t, v] and v not in path:
                walk(path + [v])

    for s in range(n):
        walk([s])
    b = np.zeros(n)
    for (s, t), (_, paths) in best.items():
        for p in paths:
            for v in p[1:-1]:
                b[v] += 1.0 / len(paths)
    return b if directed else b / 2.0


# --------------------------------------------------------------------------
# random-walk betweenness (undirected networks, evaluated per component)
# --------------------------------------------------------------------------

def components(U):
    n = len(U)
    seen, comps = set(), []
    for s in range(n):
        if s in seen:
            continue
        comp, stack = [s], [s]
        seen.add(s)
        while stack:
            v = stack.pop()
            for u in range(n):
                if U[v, u] and u not in seen:
                    seen.add(u)
                    comp.append(u)
                    stack.append(u)
        comps.append(sorted(comp))
    return comps


def is_connected(A):
    return len(components(closure(A))) == 1


def is_strongly_connected(A):
    return bool(np.all(np.isfinite(path_lengths(A))))


def newman_betweenness(A):
    """Newman (2005) current-flow betweenness.  For a unit current injected at
    s and extracted at t the current through i is
        I_i^(st) = 1/2 sum_j A_ij |v_i - v_j|   (i != s,t),   1 for i in {s,t}
    with v the node potentials (Kirchhoff: L v = e_s - e_t), and Newman's
    normalised b_i = sum_{s<t} I_i^(st) / (n(n-1)/2).
    Library convention (calibrated in the design phase, DESIGN.md 6.1, and
    visible in the code's final `(x + 2(N-1)) / (N-1)`): the value reported is
    **n * b_i** with n the size of the node's connected component; nodes in
    components of size 1 get 0.
    Potentials come from the Moore-Penrose pseudo-inverse of the Laplacian in
    its closed form  L^+ = (L + J/n)^-1 - J/n  (J = all ones; valid for a
    connected graph; numpy.linalg.pinv with its default cut-off is *not*
    reliable here), whereas the library grounds the last node and inverts the
    reduced Kirchhoff matrix."""
    U = closure(A)
    N = len(U)
    out = np.zeros(N)
    for comp in components(U):
        n = len(comp)
        if n < 2:
            continue
        B = U[np.ix_(comp, comp)].astype(float)
        L = np.diag(B.sum(axis=1)) - B
        Lp = np.linalg.inv(L + 1.0 / n) - 1.0 / n
        assert np.abs(L @ Lp @ L - L).max() < 1e-9
        tot = np.zeros(n)
        for s in range(n):
            for t in range(s + 1, n):
                v = Lp[:, s] - Lp[:, t]
                cur = 0.5 * (B * np.abs(v[:, None] - v[None, :])).sum(axis=1)
                cur[s] = cur[t] = 1.0
                tot += cur
        b = tot / (n * (n - 1) / 2.0)
        out[comp] = n * b
    return out


def arenas_betweenness(A):
    """Arenas-type random-walk betweenness (Arenas et al. 2003).  A walker
    starts at s != t and moves to a uniformly chosen neighbour until it first
    hits the target t.  Library convention (docstring: "how often a random
    walk search for a random target node from a random source node is expected
    to pass this node"; constant read off the doctest): the *sum* over all
    ordered pairs (s, t), s != t, of the expected number of times the walk is
    at j **after its first step** (the start itself is not a visit, every
    return to s and the arrival at t are).  Evaluated per connected component,
    0 for isolated nodes.
    Via the fundamental matrix F_t = (I - Q_t)^-1 of the chain absorbed at t
    (Q_t = transition matrix restricted to the transient nodes): F_t[s, j] is
    the expected number of visits to j including the start, so
        b_j = sum_{t != j} sum_{s != t} (F_t[s, j] - delta_sj)  +  (n - 1)
    where the last term counts the certain arrival at target j from each of
    the n-1 sources."""
    U = closure(A)
    N = len(U)
    out = np.zeros(N)
    for comp in components(U):
        n = len(comp)
        if n < 2:
            continue
        B = U[np.ix_(comp, comp)].astype(float)
        P = B / B.sum(axis=1, keepdims=True)
        b = np.full(n, float(n - 1))
        for t in range(n):
            tr = [v for v in range(n) if v != t]
            F = np.linalg.inv(np.eye(n - 1) - P[np.ix_(tr, tr)])
            b[tr] += F.sum(axis=0) - 1.0
        out[comp] = b
    return out


# --------------------------------------------------------------------------
# pair / link / node measures
# --------------------------------------------------------------------------

def matching_index(A):
    """|N(i) & N(j)| / |N(i) | N(j)| with N(.) the neighbour sets ("number of
    nodes linked to at least one of the two nodes": i and j themselves are in
    the union when they are linked).  NaN where the union is empty.
    Undirected networks only (for directed ones "common neighbour" is not
    defined by the docstring)."""
    U = closure(A)
    n = len(U)
    nb = [set(neighbours(U, i)) for i in range(n)]
    M = np.full((n, n), np.nan)
    for i in range(n):
        for j in range(n):
            un = nb[i] | nb[j]
            if un:
                M[i, j] = len(nb[i] & nb[j]) / len(un)
    return M


def coreness(A, directed):
    """The k-core is the maximal subnetwork in which every node has degree
    >= k *within the subnetwork*; coreness_i = largest k whose k-core contains
    i.  Found by literally peeling: for k = 1, 2, ... repeatedly delete nodes
    of degree < k.  "Degree" is the library's ``degree()``: in+out for
    directed networks (a reciprocated pair counts twice)."""
    A = _adj(A)
    n = len(A)
    M = A + A.T if directed else A.copy()     # link multiplicities
    core = np.zeros(n, dtype=np.int64)
    alive = list(range(n))
    k = 0
    while alive:
        k += 1
        while True:
            deg = M[np.ix_(alive, alive)].sum(axis=1)
            drop = [v for v, d in zip(alive, deg) if d < k]
            if not drop:
                break
            for v in drop:
                core[v] = k - 1
            alive = [v for v in alive if v not in drop]
    return core


def assortativity(A, directed):
    """Newman (2002): Pearson correlation of the degrees found at the two ends
    of a link, over all links (each link taken in both orientations so the
    coefficient is symmetric).  Degree = ``degree()`` (in+out if directed; a
    reciprocated pair is two links).  None if undefined (no links or all end
    degrees equal)."""
    A = _adj(A)
    n = len(A)
    k = degree(A, directed)
    if directed:
        E = [(i, j) for i in range(n) for j in range(n) if A[i, j]]
    else:
        E = [(i, j) for i in range(n) for j in range(i + 1, n) if A[i, j]]
    if not E:
        return None
    x = np.array([k[i] for i, j in E] + [k[j] for i, j in E], dtype=float)
    y = np.array([k[j] for i, j in E] + [k[i] for i, j in E], dtype=float)
    if np.ptp(x) == 0:
        return None
    xm, ym = x - x.mean(), y - y.mean()
    return float((xm * ym).sum() / math.sqrt((xm * xm).sum() * (ym * ym).sum()))


def laplacian(A, directed, direction="out"):
    """L = D - A, D = diag(degree) (undirected) or diag(out-/in-degree)."""
    A = _adj(A)
    if not directed:
        d = outdegree(A)
    else:
        d = outdegree(A) if direction == "out" else indegree(A)
    return np.diag(d) - A


# --------------------------------------------------------------------------
# spectral measures (connected undirected graphs unless stated)
# --------------------------------------------------------------------------

def eigenvector_centrality(A):
    """Entries of the eigenvector of the largest eigenvalue of the (symmetric)
    adjacency matrix, scaled to maximum 1 (Perron vector, positive)."""
    A = _adj(A).astype(float)
    w, V = np.linalg.eigh(A)
    v = V[:, int(np.argmax(w))]
    if v.sum() < 0:
        v = -v
    return v / v.max()


def adjacency_gap(A):
    """lambda_1 - lambda_2 of the symmetric adjacency matrix."""
    w = np.sort(np.linalg.eigvalsh(_adj(A).astype(float)))
    return float(w[-1] - w[-2])


def pagerank(A, W=None, damping=0.85, symmetric=False):
    """Stationary distribution of the random surfer: with probability
    `damping` follow an out-link chosen proportionally to its weight (uniform
    jump from nodes without out-links), otherwise jump uniformly; normalised
    to **sum 1** (library convention = igraph default, damping 0.85: the
    doctest vector sums to one although the docstring text says "maximum of
    1")."""
    A = closure(A) if symmetric else _adj(A)
    n = len(A)
    M = A.astype(float) if W is None else np.where(A != 0, np.asarray(W, float), 0.0)
    P = np.zeros((n, n))
    for i in range(n):
        s = M[i].sum()
        P[i] = M[i] / s if s > 0 else 1.0 / n
    # p = d P^T p + (1-d)/n 1   (P row-stochastic, so sum p = 1)
    p = np.linalg.solve(np.eye(n) - damping * P.T,
                        np.full(n, (1 - damping) / n))
    assert abs(p.sum() - 1) < 1e-9
    return p


def msf_synchronizability(A):
    """lambda_max / lambda_2 of the symmetric Laplacian (lambda_2 = smallest
    non-zero eigenvalue; connected undirected graphs)."""
    A = _adj(A)
    L = (np.diag(A.sum(axis=1)) - A).astype(float)
    w = np.sort(np.linalg.eigvalsh(L))
    nz = w[w > 1e-8 * max(1.0, w[-1])]
    return float(w[-1] / nz[0])
