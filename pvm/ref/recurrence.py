"""Reference definitions for recurrence matrices (C07) and RQA line statistics
(C08).  Never imports pyunicorn.  Clarity before speed.

Conventions that the definitions leave open are the library's *documented*
ones and are written down here:

* storage: the library keeps time series as float32; the reference rounds the
  input to float32 first and then works in float64;
* delay embedding of a scalar series x with (dim, tau): state k is
  (x[k], x[k+tau], ..., x[k+(dim-1)tau]), k = 0 .. n-(dim-1)tau-1;
* recurrence: R[i,j] = 1 iff d(i,j) < eps (strict);  a state that contains a
  NaN has no recurrences at all when missing-value handling is on;
* fixed recurrence rate rr (threshold_from_recurrence_rate docstring/code):
  eps = sorted(D.flat)[int(rr*(D.size-1))];  fixed *local* rate: the same
  rule applied to each row D[i,:] separately, so that on a tie-free row
  exactly k=int(rr*(N-1)) entries (the self-recurrence included, as D[i,i]=0
  is the smallest entry of its row) are recurrent;
* vertical lines (Marwan et al. 2007): runs R[i,j..j+v-1]=1 at fixed first
  index i; diagonal lines: runs along R[i+k,j+k], main diagonal excluded,
  both triangles counted (the library counts the lower triangle and doubles,
  which is the same number for symmetric R);
* missing values: a point (i,j) is missing when state i or j is; a maximal
  black run is counted unless it is adjacent to a missing point (it cannot
  contain one as missing points are not black);
* scalar measures: the formulas of Marwan et al. with the library's
  documented regulariser 1e-8 added to every denominator.
"""
import math

import numpy as np

REG = 1e-8
METRICS = ("manhattan", "euclidean", "supremum")


# ---------------------------------------------------------------- C07 ----
def f32(a):
    """Round to float32 (the library's storage type), return float64."""
    return np.asarray(a, dtype=np.float64).astype(np.float32) \
        .astype(np.float64)


def as2d(a):
    a = np.asarray(a, dtype=np.float64)
    return a.reshape(a.shape[0], -1)


def embed(x, dim, tau):
    """Delay embedding of a scalar series by definition."""
    x = np.asarray(x, dtype=np.float64).reshape(-1)
    n = x.shape[0] - (dim - 1) * tau
    if n < 1:
        raise ValueError("series too short for embedding")
    return np.array([[x[k + l * tau] for l in range(dim)] for k in range(n)],
                    dtype=np.float64).reshape(n, dim)


def distance_matrix(X, Y, metric):
    """float64 distances between the rows of X and of Y; a pair with a NaN
    component has distance NaN (never smaller than any threshold)."""
    X = as2d(X)
    Y = as2d(Y)
    nx, ny = X.shape[0], Y.shape[0]
    D = np.zeros((nx, ny))
    for l in range(X.shape[1]):
        diff = np.abs(X[:, l][:, None] - Y[:, l][None, :])
        if metric == "manhattan":
            D = D + diff
        elif metric == "euclidean":
            D = D + diff * diff
        elif metric == "supremum":
            D = np.maximum(D, diff)          # propagates NaN
        else:
            raise ValueError(metric)
    if metric == "euclidean":
        D = np.sqrt(D)
    return D


def nan_states(X):
    return np.isnan(as2d(X)).any(axis=1)


def threshold_matrix(D, eps):
    with np.errstate(invalid="ignore"):
        return (D < eps).astype(np.int8)          # NaN < eps is False


def rel_margin(D, eps):
    """Smallest |d-eps| relative to max(|eps|, max|d|, tiny) over finite
    d."""
    d = D[np.isfinite(D)]
    if d.size == 0:
        return np.inf
    scale = max(abs(eps), float(np.max(np.abs(d))), 1e-300)
    return float(np.min(np.abs(d - eps))) / scale


def rate_threshold(D, rr):
    flat = np.sort(np.asarray(D, dtype=np.float64).reshape(-1))
    return float(flat[int(rr * (flat.size - 1))])


def fixed_rate_matrix(D, rr):
    return threshold_matrix(D, rate_threshold(D, rr))


def local_rate_matrix(D, rr):
    R = np.zeros(D.shape, dtype=np.int8)
    for i in range(D.shape[0]):
        R[i, :] = threshold_matrix(D[i, :], rate_threshold(D[i, :], rr))
    return R


def local_rate_count(n, rr):
    return int(rr * (n - 1))


def mask_missing(R, miss):
    R = R.copy()
    R[miss, :] = 0
    R[:, miss] = 0
    return R


def joint(Rx, Ry, lag):
    """JR[i,j] = Rx[i,j]*Ry[i+lag,j+lag] (lag>=0);
    JR[i,j] = Rx[i-lag,j-lag]*Ry[i,j] (lag<0); shape (N-|lag|)^2."""
    n = Rx.shape[0]
    m = n - abs(lag)
    J = np.zeros((max(m, 0), max(m, 0)), dtype=np.int8)
    for i in range(m):
        for j in range(m):
            if lag >= 0:
                J[i, j] = Rx[i, j] * Ry[i + lag, j + lag]
            else:
                J[i, j] = Rx[i - lag, j - lag] * Ry[i, j]
    return J


def inter_system(Rx, Ry, CR):
    nx, ny = Rx.shape[0], Ry.shape[0]
    assert CR.shape == (nx, ny)
    M = np.zeros((nx + ny, nx + ny), dtype=np.int8)
    M[:nx, :nx] = Rx
    M[nx:, nx:] = Ry
    M[:nx, nx:] = CR
    M[nx:, :nx] = CR.T
    return M


def without_diagonal(R):
    A = np.array(R, dtype=np.int64)
    np.fill_diagonal(A, 0)
    return A


# ---------------------------------------------------------------- C08 ----
def _count_runs(points, hist):
    """points: sequence over {0,1,None}; None = missing.  Adds the maximal
    runs of 1 to hist (index = length-1) unless a neighbour is None."""
    n = len(points)
    k = 0
    while k < n:
        if points[k] != 1:
            k += 1
            continue
        s = k
        while k < n and points[k] == 1:
            k += 1
        left = points[s - 1] if s > 0 else 0
        right = points[k] if k < n else 0
        if left is None or right is None:
            continue
        hist[k - s - 1] += 1


def _pt(R, i, j, black, miss):
    if miss is not None and (miss[i] or miss[j]):
        return None
    return 1 if (R[i, j] != 0) == black else 0


def vert_hist(R, black=True, miss=None):
    R = np.asarray(R)
    n = R.shape[0]
    hist = [0] * n
    for i in range(n):
        _count_runs([_pt(R, i, j, black, miss) for j in range(R.shape[1])],
                    hist)
    return np.array(hist, dtype=np.int64)


def diag_hist(R, miss=None, triangles="both"):
    """Run lengths on all diagonals except the main one.  triangles: 'both',
    'lower' (first index > second) or 'upper'."""
    R = np.asarray(R)
    n = R.shape[0]
    hist = [0] * n
    for off in range(1, n):
        if triangles in ("both", "lower"):
            _count_runs([_pt(R, off + k, k, True, miss)
                         for k in range(n - off)], hist)
        if triangles in ("both", "upper"):
            _count_runs([_pt(R, k, off + k, True, miss)
                         for k in range(n - off)], hist)
    return np.array(hist, dtype=np.int64)


def lengths(hist):
    return np.arange(1, len(hist) + 1, dtype=np.int64)


def weighted(hist):
    return int(np.dot(lengths(hist), np.asarray(hist, dtype=np.int64)))


def max_length(hist):
    nz = np.nonzero(np.asarray(hist))[0]
    return int(nz.max()) + 1 if nz.size else 0


def fraction_in_lines(hist, lmin):
    """DET / LAM."""
    h = np.asarray(hist, dtype=np.int64)
    part = int(np.dot(lengths(h)[lmin - 1:], h[lmin - 1:]))
    return part / (float(weighted(h)) + REG)


def average_length(hist, lmin):
    """L / TT / mean recurrence time."""
    h = np.asarray(hist, dtype=np.int64)
    part = int(np.dot(lengths(h)[lmin - 1:], h[lmin - 1:]))
    return part / (float(int(h[lmin - 1:].sum())) + REG)


def entropy(hist, lmin):
    h = [int(v) for v in np.asarray(hist)[lmin - 1:] if v != 0]
    tot = float(sum(h)) + REG
    return -math.fsum((v / tot) * math.log(v / tot) for v in h)


def all_binary_symmetric(n):
    """Every symmetric 0/1 matrix with unit diagonal, n x n."""
    pairs = [(i, j) for i in range(n) for j in range(i)]
    for code in range(1 << len(pairs)):
        R = np.eye(n, dtype=np.int8)
        for b, (i, j) in enumerate(pairs):
            if code >> b & 1:
                R[i, j] = R[j, i] = 1
        yield code, R


def frechet_series(R):
    """Series whose supremum-metric recurrence matrix at eps=1.5 is R
    (symmetric, unit diagonal): x_i = (d(i,j))_j with d=0 (i==j), 1
    (recurrent), 2 (not recurrent).  sup_k |d(i,k)-d(j,k)| >= |d(i,j)-d(j,j)|
    = d(i,j) and <= 2, and = d(i,j) exactly when d(i,j)=1 needs
    |d(i,k)-d(j,k)| <= 1 for k not in {i,j}, which holds as both are in
    {1,2}; for d(i,j)=2 the k=j component gives 2."""
    R = np.asarray(R)
    D = np.where(R != 0, 1.0, 2.0)
    np.fill_diagonal(D, 0.0)
    return D
