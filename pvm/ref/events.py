"""Event synchronisation (ES) and event coincidence analysis (ECA) as plain
counting loops (no pyunicorn import).

Inputs are *event time lists*: strictly increasing sequences of numbers.  The
caller is responsible for exact arithmetic (integers / dyadic rationals), so
that `<=` on differences means the same here and in any other evaluation
order.  A result of ``None`` means *undefined* (a denominator of the formula
is zero or the formula has nothing to count).

ES  [Quiroga2002], with the conventions of [Odenweller2020] / the pyunicorn
docstrings:

    c(x|y) = sum_i sum_j J_ij ,
    J_ij = 1    if 0 <  t_i^x - t_j^y <= tau_ij
           1/2  if      t_i^x == t_j^y
           0    otherwise
    tau_ij = min( 1/2 min{ t^x_{i+1}-t^x_i, t^x_i-t^x_{i-1},
                           t^y_{j+1}-t^y_j, t^y_j-t^y_{j-1} },  tau_max )

  * the first and the last event of either series have no two-sided
    neighbourhood and are not counted (i = 2..s_x-1, j = 2..s_y-1), but their
    distance to the neighbouring interior event enters tau_ij;
  * double-count correction: a coincidence (i,j) counted for c(x|y) is
    worth only 1/2 if event i or event j also takes part in a coincidence
    counted for c(y|x), and vice versa;
  * Q(x|y) = c(x|y) / sqrt((s_x-2)(s_y-2)).
  * `lag` shifts the second series: t^y -> t^y + lag.

ECA (docstring of EventSeries.event_series_analysis):

    r(Y|X; dT1, dT2, tau) = 1/N_X sum_i Theta[ sum_j 1_[dT1,dT2](
                                      t_i^X - (t_j^Y + tau) ) ]

  precursor rate: fraction of X events that are preceded by a Y event,
      dT1 = 0, dT2 = deltaT;
  trigger rate:   fraction of Y events that are followed by an X event,
      0 <= t_i^X - t_j^Y - tau <= deltaT, normalised by N_Y;
  symmetric:      dT1 = -deltaT, dT2 = deltaT, normalised by N_X.

  Boundary convention (NOT part of the published formula; read off the
  library code and written down here as the library's convention): unless
  lag == 0 and deltaT == 0, events that lie within ``lag + deltaT`` of the
  first event of *their own* series (t <= t_first + lag + deltaT) are not
  counted for precursor-type rates, events within ``lag + deltaT`` of the
  last event of their own series (t >= t_last - lag - deltaT) are not counted
  for trigger-type rates, and both groups are left out for the symmetric
  window; N_X / N_Y is the number of events that remain.  The first/last
  event itself is therefore always left out.  If nothing remains the rate is
  undefined.
"""
import math

INF = float("inf")


# ---------------------------------------------------------------------------
# event synchronisation
# ---------------------------------------------------------------------------
def es(tx, ty, taumax=INF, lag=0.0):
    """Directed event synchronisation (Q(x|y), Q(y|x)) or None."""
    tx = list(tx)
    ty = [t + lag for t in ty]
    sx, sy = len(tx), len(ty)
    if sx < 3 or sy < 3:
        return None
    half = 0
    xy = []     # coincidences counted for c(x|y): x event after y event
    yx = []
    for i in range(1, sx - 1):
        for j in range(1, sy - 1):
            tau = min(tx[i + 1] - tx[i], tx[i] - tx[i - 1],
                      ty[j + 1] - ty[j], ty[j] - ty[j - 1]) / 2.0
            tau = min(tau, taumax)
            d = tx[i] - ty[j]
            if d == 0:
                half += 1
            elif 0 < d <= tau:
                xy.append((i, j))
            elif 0 < -d <= tau:
                yx.append((i, j))

    def count(own, other):
        oi = {i for i, _ in other}
        oj = {j for _, j in other}
        c = 0.0
        for i, j in own:
            c += 0.5 if (i in oi or j in oj) else 1.0
        return c

    norm = math.sqrt((sx - 2) * (sy - 2))
    return ((count(xy, yx) + 0.5 * half) / norm,
            (count(yx, xy) + 0.5 * half) / norm)


def es_plain(tx, ty, taumax=INF, lag=0.0):
    """Same without the double-count correction (upper bound used for
    diagnosis only)."""
    tx = list(tx)
    ty = [t + lag for t in ty]
    sx, sy = len(tx), len(ty)
    if sx < 3 or sy < 3:
        return None
    cxy = cyx = 0.0
    for i in range(1, sx - 1):
        for j in range(1, sy - 1):
            tau = min(tx[i + 1] - tx[i], tx[i] - tx[i - 1],
                      ty[j + 1] - ty[j], ty[j] - ty[j - 1]) / 2.0
            tau = min(tau, taumax)
            d = tx[i] - ty[j]
            if d == 0:
                cxy += 0.5
                cyx += 0.5
            elif 0 < d <= tau:
                cxy += 1
            elif 0 < -d <= tau:
                cyx += 1
    norm = math.sqrt((sx - 2) * (sy - 2))
    return cxy / norm, cyx / norm


# ---------------------------------------------------------------------------
# event coincidence analysis
# ---------------------------------------------------------------------------
def _admissible(t, lag, delta, start, end):
    """Indices of events of series t that are counted (boundary
    convention, see module docstring)."""
    if not t:
        return []
    if lag == 0 and delta == 0:
        return list(range(len(t)))
    out = []
    for k, v in enumerate(t):
        if start and v <= t[0] + lag + delta:
            continue
        if end and v >= t[-1] - lag - delta:
            continue
        out.append(k)
    return out


def _rate(ta, tb, lo, hi, lag, sign, start, end):
    """Fraction of the admissible events a of `ta` for which some event b of
    `tb` has lo <= sign*(a-b) - lag <= hi."""
    if not ta or not tb:
        return None
    adm = _admissible(ta, lag, hi, start, end)
    if not adm:
        return None
    hit = 0
    for k in adm:
        a = ta[k]
        if any(lo <= sign * (a - b) - lag <= hi for b in tb):
            hit += 1
    return hit / len(adm)


def precursor(tx, ty, delta, lag=0.0):
    """Fraction of x events preceded by a y event:
    0 <= t^x - t^y - lag <= delta; x events near the start not counted."""
    return _rate(list(tx), list(ty), 0.0, delta, lag, +1, True, False)


def trigger(tx, ty, delta, lag=0.0):
    """Fraction of y events followed by an x event:
    0 <= t^x - t^y - lag <= delta; y events near the end not counted."""
    return _rate(list(ty), list(tx), 0.0, delta, lag, -1, False, True)


def symmetric(tx, ty, delta, lag=0.0):
    """Fraction of x events with a y event such that
    -delta <= t^x - t^y - lag <= delta; x events near both ends not
    counted."""
    return _rate(list(tx), list(ty), -delta, delta, lag, +1, True, True)


def eca(tx, ty, delta, lag=0.0):
    """(precursor XY, trigger XY, precursor YX, trigger YX) in the order
    documented for EventSeries.event_coincidence_analysis."""
    return (precursor(tx, ty, delta, lag), trigger(tx, ty, delta, lag),
            precursor(ty, tx, delta, lag), trigger(ty, tx, delta, lag))


def eca_pair(tx, ty, delta, lag, window):
    """(rate 'from y to x', rate 'from x to y') for one window type, i.e.
    the entries [x,y] and [y,x] of the analysis matrix."""
    if window == "advanced":
        return precursor(tx, ty, delta, lag), precursor(ty, tx, delta, lag)
    if window == "retarded":
        return trigger(tx, ty, delta, lag), trigger(ty, tx, delta, lag)
    if window == "symmetric":
        return symmetric(tx, ty, delta, lag), symmetric(ty, tx, delta, lag)
    raise ValueError(window)


# ---------------------------------------------------------------------------
# matrices
# ---------------------------------------------------------------------------
def directed_matrix(times, pair, second_is_larger_index=False):
    """times: list of event-time lists; pair(tx,ty)->(v_xy, v_yx).
    Entry [i][j] = value 'from j to i' = first output of pair(t_i,t_j); every
    ordered pair is evaluated on its own (the second output is not used for
    the transposed entry).  Undefined -> None; the diagonal is None (not
    defined by the docs).

    second_is_larger_index=True (ES with lag != 0): the measure is not
    exchange symmetric because the lag shifts the *second* series only; the
    library evaluates each unordered pair once with the variable of larger
    index as second series, [i][j],[j][i] = pair(t_i,t_j) for i<j.  This is
    the library's convention, taken as the definition."""
    n = len(times)
    D = [[None] * n for _ in range(n)]
    for i in range(n):
        for j in range(n):
            if i == j:
                continue
            if second_is_larger_index:
                if i < j:
                    r = pair(times[i], times[j])
                    if r is not None:
                        D[i][j], D[j][i] = r[0], r[1]
            else:
                r = pair(times[i], times[j])
                D[i][j] = None if r is None else r[0]
    return D


def symmetrise(D, option):
    """Symmetrisation table of the docstring; None where either operand is
    undefined."""
    n = len(D)
    S = [[None] * n for _ in range(n)]
    for i in range(n):
        for j in range(n):
            a, b = D[i][j], D[j][i]
            if option == "directed":
                S[i][j] = a
                continue
            if a is None or b is None:
                continue
            if option == "symmetric":
                S[i][j] = a + b
            elif option == "antisym":
                S[i][j] = a - b
            elif option == "mean":
                S[i][j] = (a + b) / 2.0
            elif option == "max":
                S[i][j] = max(a, b)
            elif option == "min":
                S[i][j] = min(a, b)
            else:
                raise ValueError(option)
    return S


# ---------------------------------------------------------------------------
# thresholding
# ---------------------------------------------------------------------------
def event_matrix(data, methods, values, types):
    """data: 2-D numpy array [time, variable]; methods/values/types: lists of
    length N with entries 'quantile'|'value', number|None, 'above'|'below'|
    None.  Documented defaults: missing value -> median (quantile 0.5);
    missing type -> 'above' if the quantile >= 0.5 (method 'quantile') or if
    the threshold >= median (method 'value'), else 'below'.
    Returns (0/1 matrix, thresholds, types)."""
    import numpy as np
    T, N = data.shape
    out = np.zeros((T, N))
    thr, typ = [], []
    for i in range(N):
        col = data[:, i]
        m, v, ty = methods[i], values[i], types[i]
        if m == "quantile":
            qv = 0.5 if v is None else v
            q = np.quantile(col, qv)
            if ty is None:
                ty = "above" if qv >= 0.5 else "below"
        elif m == "value":
            q = np.median(col) if v is None else v
            if ty is None:
                ty = "above" if q >= np.median(col) else "below"
        else:
            raise ValueError(m)
        for t in range(T):
            out[t, i] = 1.0 if (col[t] > q if ty == "above"
                                else col[t] < q) else 0.0
        thr.append(float(q))
        typ.append(ty)
    return out, thr, typ
