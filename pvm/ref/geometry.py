"""Closed-form grid geometry in float64 (no pyunicorn import).

All functions first round the coordinates to float32 -- the library stores
coordinates in single precision, so the *inputs* of the reference and of the
library are the same numbers -- and then work in float64.
"""
import itertools

import numpy as np

PI32 = float(np.float32(np.pi))     # arccos(float32(-1)): > math.pi by 8.7e-8


def f32(a):
    """float32 rounding, returned as float64."""
    return np.asarray(a, dtype=np.float64).astype(np.float32) \
        .astype(np.float64)


def _vincenty(lat1, lon1, lat2, lon2):
    """Great-circle distance, atan2 form (well conditioned everywhere).
    Arguments in radians (float64, broadcastable)."""
    dl = lon2 - lon1
    s1, c1 = np.sin(lat1), np.cos(lat1)
    s2, c2 = np.sin(lat2), np.cos(lat2)
    sd, cd = np.sin(dl), np.cos(dl)
    num = np.hypot(c2 * sd, c1 * s2 - s1 * c2 * cd)
    den = s1 * s2 + c1 * c2 * cd
    return np.arctan2(num, den)


def great_circle_matrix(lat_deg, lon_deg):
    """N x N matrix of angular great-circle distances (radians)."""
    la = np.deg2rad(f32(lat_deg))
    lo = np.deg2rad(f32(lon_deg))
    return _vincenty(la[:, None], lo[:, None], la[None, :], lo[None, :])


def great_circle_to_point(lat_deg, lon_deg, qlat, qlon):
    """Distances of all nodes to one query point (query in float64)."""
    la = np.deg2rad(f32(lat_deg))
    lo = np.deg2rad(f32(lon_deg))
    return _vincenty(la, lo, np.deg2rad(float(qlat)), np.deg2rad(float(qlon)))


def chord_matrix(lat_deg, lon_deg):
    """Independent second form: angle from the chord length of unit vectors
    (2*asin(|u-v|/2)); well conditioned except near antipodes.  Used only to
    sanity-check `great_circle_matrix` itself."""
    la = np.deg2rad(f32(lat_deg))
    lo = np.deg2rad(f32(lon_deg))
    u = np.stack([np.cos(la) * np.cos(lo), np.cos(la) * np.sin(lo),
                  np.sin(la)], axis=1)
    ch = np.linalg.norm(u[:, None, :] - u[None, :, :], axis=2)
    return 2 * np.arcsin(np.clip(ch / 2, 0, 1))


def euclid_matrix(X):
    """X: [dim, N].  Euclidean norms of the float32-rounded coordinates."""
    X = f32(X)
    diff = X[:, :, None] - X[:, None, :]
    return np.sqrt((diff ** 2).sum(axis=0))


def euclid_to_point(X, q):
    X = f32(X)
    q = np.asarray(q, dtype=np.float64)
    return np.sqrt(((X.T - q) ** 2).sum(axis=1))


def cos_lat(lat_deg):
    return np.cos(np.deg2rad(f32(lat_deg)))


def product_multiset(axes):
    """Sorted list of all tuples of the Cartesian product of the (float32
    rounded) axes -- duplicates in an axis are kept as duplicates."""
    ax = [[float(v) for v in f32(a)] for a in axes]
    return sorted(itertools.product(*ax))


def triangle_excess(D):
    """max_{i,j,k} D[i,j] - D[i,k] - D[k,j] (float64), and the arg triple."""
    D = np.asarray(D, dtype=np.float64)
    best, arg = -np.inf, None
    for k in range(D.shape[0]):
        E = D - (D[:, k][:, None] + D[k, :][None, :])
        m = E.max()
        if m > best:
            i, j = np.unravel_index(int(E.argmax()), E.shape)
            best, arg = float(m), (int(i), int(j), int(k))
    return best, arg


def triangle_excess_rel(D, rel):
    """max over triples of D[i,j](1-rel) - (D[i,k]+D[k,j])(1+rel): positive
    iff the triangle inequality fails by more than a relative error `rel` in
    each of the three terms."""
    D = np.asarray(D, dtype=np.float64)
    lo, hi = D * (1 - rel), D * (1 + rel)
    best, arg = -np.inf, None
    for k in range(D.shape[0]):
        E = lo - (hi[:, k][:, None] + hi[k, :][None, :])
        m = E.max()
        if m > best:
            i, j = np.unravel_index(int(E.argmax()), E.shape)
            best, arg = float(m), (int(i), int(j), int(k))
    return best, arg


# ---- link-distance / area-weighted measures (defining sums) -------------

def awc_in(A, cl):
    """in-AWC_j = sum_i cos(lat_i) A_ij / sum_i cos(lat_i)."""
    A = np.asarray(A, dtype=np.float64)
    return (cl[:, None] * A).sum(axis=0) / cl.sum()


def awc_out(A, cl):
    """out-AWC_i = sum_j A_ij cos(lat_j) / sum_j cos(lat_j)."""
    A = np.asarray(A, dtype=np.float64)
    return (A * cl[None, :]).sum(axis=1) / cl.sum()


def avg_link_distance(M, D, geometry_corrected=False):
    """ALD_i = sum_j M_ij D_ij / sum_j M_ij (0 where the node has no link);
    optionally divided by the mean distance of i to all nodes."""
    M = np.asarray(M, dtype=np.float64)
    D = np.asarray(D, dtype=np.float64)
    k = M.sum(axis=1)
    out = np.zeros(len(k))
    nz = k != 0
    out[nz] = (M * D).sum(axis=1)[nz] / k[nz]
    if geometry_corrected:
        out = out / D.mean(axis=1)
    return out


def max_link_distance(M, D):
    M = np.asarray(M, dtype=np.float64)
    return (M * np.asarray(D, dtype=np.float64)).max(axis=1)


def conn_weighted_distance(M, D, cl):
    """CWD_i = sum_j M_ij cos(lat_j) D_ij / (k_i * sum cos lat)."""
    M = np.asarray(M, dtype=np.float64)
    D = np.asarray(D, dtype=np.float64)
    k = M.sum(axis=1)
    out = (M * cl[None, :] * D).sum(axis=1)
    nz = k != 0
    out[nz] = out[nz] / (k[nz] * cl.sum())
    return out


def link_distance_histogram(A, D, n_bins):
    """Relative frequencies of D over the links of A in n_bins equal bins on
    [0, max D]; returns (frequencies, lower bin boundaries, borderline) where
    `borderline` is True if some link distance is within 1e-6*max of an inner
    bin edge (float32/float64 edge arithmetic may then legitimately differ)."""
    A = np.asarray(A)
    D = np.asarray(D, dtype=np.float64)
    vals = D[A == 1]
    dmax = D.max()
    edges = np.linspace(0.0, dmax, n_bins + 1)
    cnt = np.zeros(n_bins)
    for v in vals:
        b = min(int(np.searchsorted(edges, v, side="right")) - 1, n_bins - 1)
        cnt[b] += 1
    border = False
    if len(vals) and n_bins > 1:
        gap = np.abs(vals[:, None] - edges[None, 1:-1]).min()
        border = bool(gap <= 1e-6 * max(dmax, 1e-30))
    return cnt / max(cnt.sum(), 1), edges[:-1], border
