"""Exact visibility criteria in rational arithmetic (no pyunicorn import)."""
from fractions import Fraction
import math

import numpy as np


def _fr(v):
    return Fraction(float(v))


def natural(x, t, missing=False):
    """A[i,j]=1 iff for all i<k<j: x_k < x_i + (x_j-x_i)(t_k-t_i)/(t_j-t_i).
    NaN samples (if missing) are isolated and block visibility."""
    n = len(x)
    A = np.zeros((n, n), dtype=np.int8)
    nan = [isinstance(v, float) and math.isnan(v) or
           (isinstance(v, np.floating) and np.isnan(v)) for v in x]
    X = [None if nan[i] else _fr(x[i]) for i in range(n)]
    T = [_fr(v) for v in t]
    for i in range(n):
        if nan[i]:
            continue
        for j in range(i + 1, n):
            if nan[j]:
                continue
            ok = True
            for k in range(i + 1, j):
                if nan[k]:
                    ok = False
                    break
                line = X[i] + (X[j] - X[i]) * (T[k] - T[i]) / (T[j] - T[i])
                if not X[k] < line:
                    ok = False
                    break
            if ok:
                A[i, j] = A[j, i] = 1
    return A


def horizontal(x, missing=False):
    n = len(x)
    A = np.zeros((n, n), dtype=np.int8)
    nan = [bool(np.isnan(v)) for v in x]
    for i in range(n):
        if nan[i]:
            continue
        for j in range(i + 1, n):
            if nan[j]:
                continue
            m = min(x[i], x[j])
            ok = True
            for k in range(i + 1, j):
                if nan[k] or not x[k] < m:
                    ok = False
                    break
            if ok:
                A[i, j] = A[j, i] = 1
    return A


def natural_margin(x, t):
    """Smallest |x_k - line| over all decisive comparisons, relative to the
    value scale (for float data: skip borderline cases)."""
    x = np.asarray(x, dtype=float)
    t = np.asarray(t, dtype=float)
    n = len(x)
    m = np.inf
    for i in range(n):
        for j in range(i + 2, n):
            k = np.arange(i + 1, j)
            line = x[i] + (x[j] - x[i]) * (t[k] - t[i]) / (t[j] - t[i])
            m = min(m, np.min(np.abs(x[k] - line)))
    scale = max(1e-300, np.ptp(x))
    return m / scale


def natural_int(x):
    """Natural visibility graph of a whole-numbered, regularly sampled series
    in exact integer arithmetic, O(n^2): j is visible from i iff the slope
    (x_j - x_i) / (j - i) exceeds the slope to every sample in between."""
    n = len(x)
    X = [int(v) for v in x]
    assert all(float(a) == float(b) for a, b in zip(X, x))
    A = np.zeros((n, n), dtype=np.int8)
    for i in range(n - 1):
        A[i, i + 1] = A[i + 1, i] = 1
        num, den = X[i + 1] - X[i], 1          # largest slope so far
        for j in range(i + 2, n):
            dn, dd = X[j] - X[i], j - i
            if dn * den > num * dd:            # strictly above all of them
                A[i, j] = A[j, i] = 1
            if dn * den >= num * dd:
                num, den = dn, dd
    return A


def horizontal_fast(x):
    """Horizontal visibility graph without missing values, O(n^2)."""
    n = len(x)
    A = np.zeros((n, n), dtype=np.int8)
    for i in range(n - 1):
        A[i, i + 1] = A[i + 1, i] = 1
        top = x[i + 1]
        for j in range(i + 2, n):
            if top < min(x[i], x[j]):
                A[i, j] = A[j, i] = 1
            top = max(top, x[j])
            if top >= x[i]:
                break
    return A
