"""Reference statistics for C10 (never imports pyunicorn).

Everything here is written from the docstrings of the library:

* window convention of ``CouplingAnalysis`` (cross_correlation,
  mutual_information, information_transfer): entry (i, j, tau) relates
  X^i_{t-tau} to X^j_t for t = max_lag .. T-1, i.e. the windows
  ``x_i[max_lag-tau : T-tau]`` and ``x_j[max_lag : T]``, each standardised on
  its own window; ``max_lag = tau_max`` (+ ``past`` for information transfer).
* window convention of ``CouplingAnalysisPurePython``:
  ``(tau_max)(corr_range)(tau_max)``; entry [t, i, j] relates
  ``x_i[tau_max : T-tau_max]`` to ``x_j[t : t+corr_range]``, t = 0..2 tau_max.
* a statistic whose standardisation divides by zero (constant window) is
  *undefined* and reported as NaN by the reference.
"""
import numpy as np

NAN = float("nan")


# --------------------------------------------------------------------------
# basic statistics
# --------------------------------------------------------------------------
def is_const(w):
    w = np.asarray(w, dtype=np.float64)
    if w.size == 0:
        return True
    return bool(np.ptp(w) <= 1e-12 * max(1.0, float(np.max(np.abs(w)))))


def pearson(a, b):
    """Pearson r of two equally long windows (float64); NaN if undefined."""
    a = np.asarray(a, dtype=np.float64)
    b = np.asarray(b, dtype=np.float64)
    if len(a) != len(b) or len(a) < 2 or is_const(a) or is_const(b):
        return NAN
    with np.errstate(all="ignore"):
        return float(np.corrcoef(a, b)[0, 1])


def windows(data, i, j, tau, max_lag):
    T = data.shape[0]
    return data[max_lag - tau:T - tau, i], data[max_lag:T, j]


def cc_all(data, tau_max):
    """(N, N, tau_max+1) lagged Pearson correlations, NaN where undefined."""
    T, N = data.shape
    out = np.full((N, N, tau_max + 1), NAN)
    for i in range(N):
        for j in range(N):
            for tau in range(tau_max + 1):
                x, y = windows(data, i, j, tau, tau_max)
                out[i, j, tau] = pearson(x, y)
    return out


def pure_cc_all(data, tau_max):
    """(2 tau_max+1, N, N) for the pure-Python twin's documented windows."""
    T, N = data.shape
    cr = T - 2 * tau_max
    out = np.full((2 * tau_max + 1, N, N), NAN)
    for i in range(N):
        for j in range(N):
            for t in range(2 * tau_max + 1):
                out[t, i, j] = pearson(data[tau_max:tau_max + cr, i],
                                       data[t:t + cr, j])
    return out


def absmax_lags(lagfunc, tol):
    """value with the largest |.| over the lag axis and the set of lags whose
    |value| is within tol of it (NaN entries count as 0, the library's
    documented treatment of zero-variance nodes)."""
    f = np.where(np.isnan(lagfunc), 0.0, lagfunc)
    m = float(np.max(np.abs(f)))
    ok = [int(t) for t in range(len(f)) if abs(f[t]) >= m - tol]
    return m, ok


def symmetrize_by_absmax(S, L):
    """Elementwise rule of the docstring: both (i,j) and (j,i) receive the
    value with the larger absolute value; the lag of the copied entry is the
    negative of the winner's lag.  Returns (S', L', tie) where tie marks
    pairs with |S_ij| == |S_ji| (either orientation is acceptable)."""
    S = np.array(S, dtype=np.float64)
    L = np.array(L, dtype=np.int64)
    N = S.shape[0]
    S2, L2 = S.copy(), L.copy()
    tie = np.zeros((N, N), dtype=bool)
    for i in range(N):
        for j in range(i + 1, N):
            if abs(S[i, j]) == abs(S[j, i]):
                tie[i, j] = tie[j, i] = True
            if abs(S[i, j]) > abs(S[j, i]):
                S2[j, i] = S[i, j]
                L2[j, i] = -L[i, j]
            else:
                S2[i, j] = S[j, i]
                L2[i, j] = -L[j, i]
    return S2, L2, tie


# --------------------------------------------------------------------------
# mutual information estimators of CouplingAnalysis
# --------------------------------------------------------------------------
def gauss_mi(r):
    if np.isnan(r):
        return NAN
    with np.errstate(all="ignore"):
        return float(-0.5 * np.log(1.0 - r * r))


def mi_gauss_all(data, tau_max):
    T, N = data.shape
    out = np.full((N, N, tau_max + 1), NAN)
    r = cc_all(data, tau_max)
    for idx in np.ndindex(*r.shape):
        out[idx] = gauss_mi(r[idx])
    return out, r


def quantile_symbols(w, bins):
    """Equal-quantile symbols: lower bin edges are every ceil(M/bins)-th
    order statistic; the symbol is the index of the last edge <= value."""
    w = np.asarray(w, dtype=np.float64)
    M = len(w)
    step = int(np.ceil(M / float(bins)))
    edges = np.sort(w)[::step]
    return np.searchsorted(edges, w, side="right") - 1


def plugin_mi(sx, sy):
    """Plug-in (maximum likelihood) MI in nats of two symbol sequences."""
    sx = np.asarray(sx)
    sy = np.asarray(sy)
    M = len(sx)
    nx, ny = int(sx.max()) + 1, int(sy.max()) + 1
    H, _, _ = np.histogram2d(sx, sy, bins=[np.arange(nx + 1) - 0.5,
                                           np.arange(ny + 1) - 0.5])
    p = H / M
    px = p.sum(axis=1, keepdims=True)
    py = p.sum(axis=0, keepdims=True)
    nz = p > 0
    return float(np.sum(p[nz] * np.log(p[nz] / (px @ py)[nz])))


def mi_binning_all(data, tau_max, bins):
    T, N = data.shape
    out = np.zeros((N, N, tau_max + 1))
    for i in range(N):
        for j in range(N):
            for tau in range(tau_max + 1):
                x, y = windows(data, i, j, tau, tau_max)
                out[i, j, tau] = plugin_mi(quantile_symbols(x, bins),
                                           quantile_symbols(y, bins))
    return out


def standardize_f32(rows):
    """Standardisation in single precision, as documented for the knn
    estimator (FIELD = float32)."""
    a = np.array(rows, dtype=np.float32)
    a -= a.mean(axis=1).reshape(-1, 1)
    with np.errstate(all="ignore"):
        a /= a.std(axis=1).reshape(-1, 1)
    return a


def knn_counts(arr, k, tol=4e-10):
    """Kraskov (algorithm 1) neighbour counts in the maximum norm by brute
    force.  arr: (2, M) standardised float32 rows [X, Y].  For every sample
    the distance eps to its k-th nearest neighbour in the joint space is
    determined; k_x, k_y count the samples (including the reference sample)
    strictly inside eps in the marginal spaces.  Distances are differences
    of single-precision numbers evaluated in single precision (FIELD).
    `decisive` is False if any competing distance lies within `tol` of eps
    (then the library's 1e-10 tie-breaking noise decides and the counts are
    not a function of the data)."""
    arr = np.asarray(arr, dtype=np.float32)
    M = arr.shape[1]
    d = np.abs(arr[:, :, None] - arr[:, None, :]).astype(np.float64)
    dx, dy = d[0], d[1]
    dj = np.maximum(dx, dy)
    eps = np.sort(dj, axis=1)[:, k].reshape(M, 1)
    decisive = bool(np.all((dj < eps - tol).sum(axis=1) == k) and
                    np.all((dj <= eps + tol).sum(axis=1) == k + 1) and
                    np.all(eps > 10 * tol))
    res = []
    amb = np.zeros(M, dtype=int)
    for dd in (dx, dy):
        lo = (dd < eps - tol).sum(axis=1)
        hi = (dd <= eps + tol).sum(axis=1)
        amb += hi - lo
        res.append(lo)
    # the k-th neighbour itself sits exactly on eps in one coordinate; any
    # further distance near eps makes the case non-decisive
    if np.any(amb != 1):
        decisive = False
    return res[0], res[1], np.full(M, M), decisive


def mi_knn_pair(x, y, k):
    """(value, decisive) of the Kraskov-1 estimate psi(k)+psi(M)-<psi(nx+1)
    +psi(ny+1)> on float32-standardised windows."""
    from scipy.special import digamma
    arr = standardize_f32([x, y])
    if not np.all(np.isfinite(arr)):
        return NAN, False
    kx, ky, kz, dec = knn_counts(arr, k)
    val = float(digamma(k) + (-digamma(kx) - digamma(ky)
                              + digamma(kz)).mean())
    return val, dec


# --------------------------------------------------------------------------
# information transfer, Gaussian form
# --------------------------------------------------------------------------
def it_gauss_entry(data, i, j, tau, tau_max, past, cond_mode):
    """-1/2 log(1-rho^2) with rho the partial correlation of X^i_{t-tau} and
    X^j_t given the conditions of ITY / MIT, computed from least-squares
    residuals (with intercept).  NaN if undefined (constant window, rank
    deficient conditions, or X/Y (numerically) inside the span of the
    conditions)."""
    T = data.shape[0]
    ml = tau_max + past
    M = T - ml
    x = data[ml - tau:T - tau, i].astype(np.float64)
    y = data[ml:T, j].astype(np.float64)
    Z = [data[ml - p:T - p, j] for p in range(1, past + 1)]
    if cond_mode == "mit":
        Z += [data[ml - tau - p:T - tau - p, i] for p in range(1, past + 1)]
    cols = [x, y] + Z
    if any(is_const(c) for c in cols):
        return NAN
    Zs = np.column_stack([(c - c.mean()) / c.std() for c in Z])
    if M <= Zs.shape[1] + 2:
        return NAN
    sv = np.linalg.svd(Zs, compute_uv=False)
    if sv[-1] <= 1e-7 * sv[0]:
        return NAN
    D = np.column_stack([np.ones(M), Zs])
    xs = (x - x.mean()) / x.std()
    ys = (y - y.mean()) / y.std()
    rx = xs - D @ np.linalg.lstsq(D, xs, rcond=None)[0]
    ry = ys - D @ np.linalg.lstsq(D, ys, rcond=None)[0]
    nx, ny = float(rx @ rx), float(ry @ ry)
    if nx <= 1e-9 * M or ny <= 1e-9 * M:
        return NAN
    rho = float(rx @ ry) / np.sqrt(nx * ny)
    if 1.0 - rho * rho < 1e-9:
        return NAN
    return float(-0.5 * np.log(1.0 - rho * rho))


def it_gauss_all(data, tau_max, past, cond_mode):
    T, N = data.shape
    out = np.full((N, N, tau_max + 1), NAN)
    for i in range(N):
        for j in range(N):
            for tau in range(tau_max + 1):
                out[i, j, tau] = it_gauss_entry(data, i, j, tau, tau_max,
                                                past, cond_mode)
    return out


# --------------------------------------------------------------------------
# climate similarity classes
# --------------------------------------------------------------------------
def anomaly(obs, time_cycle):
    """Phase averaging: the climatological mean of every phase of the annual
    cycle is subtracted from the samples of that phase."""
    obs = np.asarray(obs, dtype=np.float64)
    out = np.empty_like(obs)
    for ph in range(time_cycle):
        out[ph::time_cycle] = obs[ph::time_cycle] - \
            obs[ph::time_cycle].mean(axis=0)
    return out


def pearson_matrix(a):
    T, N = a.shape
    out = np.full((N, N), NAN)
    for i in range(N):
        for j in range(N):
            out[i, j] = pearson(a[:, i], a[:, j])
    return out


def has_ties(a, rel=1e-9):
    """True if some series has two samples that are equal or closer than
    rel * (range of the series): the rank order is then decided by rounding
    noise (e.g. anomalies that are tied in exact arithmetic)."""
    for i in range(a.shape[1]):
        v = np.sort(a[:, i])
        if len(v) > 1 and np.min(np.diff(v)) <= rel * max(np.ptp(v), 1e-300):
            return True
    return False


def spearman_matrix(a):
    """Spearman's rho = Pearson correlation of (average) ranks."""
    from scipy.stats import rankdata
    R = np.column_stack([rankdata(a[:, i]) for i in range(a.shape[1])])
    return pearson_matrix(R)


def partial_corr_matrix(a):
    """Partial correlation of i and j given all other series, from
    least-squares residuals.  Returns (matrix with NaN diagonal, cond)
    where cond is the condition number of the correlation matrix."""
    T, N = a.shape
    out = np.full((N, N), NAN)
    C = pearson_matrix(a)
    if np.isnan(C).any():
        return out, np.inf
    cond = float(np.linalg.cond(C))
    for i in range(N):
        for j in range(i + 1, N):
            others = [k for k in range(N) if k not in (i, j)]
            D = np.column_stack([np.ones(T)] + [a[:, k] for k in others])
            ri = a[:, i] - D @ np.linalg.lstsq(D, a[:, i], rcond=None)[0]
            rj = a[:, j] - D @ np.linalg.lstsq(D, a[:, j], rcond=None)[0]
            out[i, j] = out[j, i] = pearson(ri, rj)
    return out, cond


def normalize_columns(a):
    a = np.array(a, dtype=np.float64)
    a -= a.mean(axis=0)
    with np.errstate(all="ignore"):
        a /= np.sqrt((a * a).mean(axis=0))
    a[np.isnan(a)] = 0
    return a


def hist_mi_from_symbols(sym, n_bins):
    """sym: (N, M) integer symbols; plug-in MI matrix (diagonal NaN)."""
    N, M = sym.shape
    out = np.full((N, N), NAN)
    for i in range(N):
        for j in range(N):
            if i == j:
                continue
            H, _, _ = np.histogram2d(sym[i], sym[j],
                                     bins=[np.arange(n_bins + 1) - 0.5] * 2)
            p = H / M
            px = p.sum(axis=1, keepdims=True)
            py = p.sum(axis=0, keepdims=True)
            nz = p > 0
            out[i, j] = float(np.sum(p[nz] * np.log(p[nz] / (px @ py)[nz])))
    return out


def climate_hist_mi(anom, n_bins=32):
    """Fixed-width histogram MI of MutualInfoClimateNetwork: series are
    normalised, the common range [min, max] of the single-precision array is
    mapped to [0, 1] and cut into n_bins equal bins (top edge inclusive).
    The rescaling is evaluated in single precision exactly as documented
    for the kernel input (float32), so that every sample is assigned the
    same bin.  Returns (mi, n_flips) with n_flips = number of samples
    whose bin differs from a float64 evaluation (diagnostic only)."""
    a = normalize_columns(anom)
    a32 = a.T.astype(np.float32)
    # range and scaling are formed in double precision from the normalised
    # anomalies and handed to the kernel as single-precision numbers
    rmin = float(a.min())
    rmax = float(a.max())
    if not rmax > rmin:
        return None, 0
    sc = np.float32(1.0 / (rmax - rmin))
    rm = np.float32(rmin)
    resc = (sc * (a32 - rm)).astype(np.float32)
    sym = np.where(resc < 1.0,
                   np.floor(resc.astype(np.float64) * n_bins),
                   n_bins - 1).astype(np.int64)
    r64 = (a.T - rmin) / (rmax - rmin)
    s64 = np.where(r64 < 1.0, np.floor(r64 * n_bins), n_bins - 1)
    flips = int((s64 != sym).sum())
    return hist_mi_from_symbols(sym, n_bins), flips


def test_hist_mi(orig, surr, n_bins):
    """Surrogates.test_mutual_information: common range over both arrays
    (double precision), n_bins equal bins, entry (i,j) = MI(original i,
    surrogate j).  Returns (mi, margin): margin = smallest distance (in bin
    units) of a sample from an interior bin boundary."""
    orig = np.asarray(orig, dtype=np.float64)
    surr = np.asarray(surr, dtype=np.float64)
    N, M = orig.shape
    rmin = min(orig.min(), surr.min())
    rmax = max(orig.max(), surr.max())
    if not rmax > rmin:
        return None, 0.0

    def symb(a):
        r = (a - rmin) / (rmax - rmin) * n_bins
        s = np.where(r < n_bins, np.floor(r), n_bins - 1).astype(np.int64)
        # distance to the nearest *interior* bin boundary 1..n_bins-1 (both
        # sides of the outer boundaries 0 and n_bins map to the same bin)
        nb = np.clip(np.round(r), 1, max(1, n_bins - 1))
        m = float(np.abs(r - nb).min()) if n_bins > 1 else 1.0
        return s, m
    so, mo = symb(orig)
    ss, ms = symb(surr)
    out = np.full((N, N), NAN)
    for i in range(N):
        for j in range(N):
            H, _, _ = np.histogram2d(so[i], ss[j],
                                     bins=[np.arange(n_bins + 1) - 0.5] * 2)
            p = H / M
            px = p.sum(axis=1, keepdims=True)
            py = p.sum(axis=0, keepdims=True)
            nz = p > 0
            out[i, j] = float(np.sum(p[nz] * np.log(p[nz] / (px @ py)[nz])))
    return out, min(mo, ms)


def selftest():
    """Textbook sanity checks of the reference itself."""
    t = np.arange(12, dtype=float)
    assert abs(pearson(t, 2 * t + 1) - 1) < 1e-12
    assert abs(pearson(t, -t) + 1) < 1e-12
    assert np.isnan(pearson(t, np.ones(12)))
    # independent uniform symbols -> MI 0 ; identical -> log(bins)
    sx = np.repeat(np.arange(3), 3)
    sy = np.tile(np.arange(3), 3)
    assert abs(plugin_mi(sx, sy)) < 1e-12
    assert abs(plugin_mi(sx, sx) - np.log(3)) < 1e-12
    assert list(quantile_symbols([5, 1, 3, 2, 4, 6], 3)) == [2, 0, 1, 0, 1, 2]
    # lag convention: y_t = x_{t-2}
    rng = np.random.default_rng(0)
    x = rng.normal(size=40)
    d = np.column_stack([x, np.roll(x, 2)])
    c = cc_all(d, 3)
    assert abs(c[0, 1, 2] - 1) < 1e-12 and abs(c[0, 1, 1]) < 0.9
    # partial correlation: z drives x and y -> partial ~ 0, raw large
    z = rng.normal(size=4000)
    a = np.column_stack([z + 0.1 * rng.normal(size=4000),
                         z + 0.1 * rng.normal(size=4000), z])
    P, _ = partial_corr_matrix(a)
    assert abs(P[0, 1]) < 0.1 < 0.9 < pearson(a[:, 0], a[:, 1])
    Ci = np.linalg.inv(np.corrcoef(a.T))
    assert abs(P[0, 1] + Ci[0, 1] / np.sqrt(Ci[0, 0] * Ci[1, 1])) < 1e-9
    # knn: MI of independent samples ~ 0, of strongly dependent > 1
    u = rng.normal(size=300)
    v = rng.normal(size=300)
    m0, _ = mi_knn_pair(u, v, 5)
    m1, _ = mi_knn_pair(u, u + 0.05 * v, 5)
    assert abs(m0) < 0.15 and m1 > 1.5
    # transfer: x drives y at lag 1
    e = rng.normal(size=(500, 2))
    xx = np.zeros(500)
    yy = np.zeros(500)
    for k in range(1, 500):
        xx[k] = 0.5 * xx[k - 1] + e[k, 0]
        yy[k] = 0.8 * xx[k - 1] + e[k, 1]
    dd = np.column_stack([xx, yy])
    assert it_gauss_entry(dd, 0, 1, 1, 2, 1, "mit") > 0.2
    assert it_gauss_entry(dd, 1, 0, 1, 2, 1, "mit") < 0.02
    return True
