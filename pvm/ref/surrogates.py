"""Reference definitions for C15 (surrogates).  Never imports pyunicorn.

Conventions written down from the library's docstrings / kernels
(`timeseries/surrogates.py`, `timeseries/recurrence_plot.py`,
`timeseries/_ext/numerics.pyx`):

* delay embedding of a scalar series x (length n) with dimension d and delay
  tau: state t = (x[t], x[t+tau], ..., x[t+(d-1)tau]) for
  t = 0 .. n-(d-1)tau-1.
* `Surrogates.recurrence_plot` / `Surrogates.twins`: supremum norm,
  R[j,k] = 1  iff  max_l |e[j,l]-e[k,l]| <= threshold  ("j and k are not
  neighbors" iff some component differs by MORE than the threshold),
  diagonal 1, no normalisation of the data.
* `RecurrencePlot(threshold=eps)`: R[j,k] = 1 iff D[j,k] < eps (strict), D in
  the chosen metric on the (optionally normalised: per component zero mean /
  unit std) embedding; diagonal 1.
* twins of state j: all k with |j-k| > min_dist whose recurrence column
  equals that of j.
* twin walk (both kernels `_twin_surrogates_s/_r`): start at a uniformly
  random state; from state k go to k+1, or to t+1 for a twin t of k; *if that
  successor index is >= n (it fell off the end of the trajectory) a new state
  is drawn uniformly from 0..n-1* ("restart").  Hence a transition k -> k' is
  legal iff  k' == k+1,  or k'-1 is a twin of k,  or (restart) k == n-1 or
  n-1 is a twin of k.
"""
import numpy as np


def embed(x, dim, delay):
    """x: (N, n) -> (N, n-(dim-1)*delay, dim)."""
    x = np.asarray(x)
    N, n = x.shape
    m = n - (dim - 1) * delay
    out = np.empty((N, m, dim), dtype=x.dtype)
    for t in range(m):
        for l in range(dim):
            out[:, t, l] = x[:, t + l * delay]
    return out


def sup_dist(e):
    """e: (n, dim) -> (n, n) supremum distances (same dtype arithmetic)."""
    e = np.asarray(e)
    n = e.shape[0]
    D = np.zeros((n, n), dtype=e.dtype)
    for l in range(e.shape[1]):
        c = e[:, l]
        np.maximum(D, np.abs(c[:, None] - c[None, :]), out=D)
    return D


def manhattan_dist(e):
    e = np.asarray(e)
    n = e.shape[0]
    D = np.zeros((n, n), dtype=e.dtype)
    for l in range(e.shape[1]):
        c = e[:, l]
        D += np.abs(c[:, None] - c[None, :])
    return D


def recurrence(D, threshold, strict):
    R = (D < threshold) if strict else (D <= threshold)
    R = R.astype(np.int8)
    np.fill_diagonal(R, 1)
    return R


def twins_from_R(R, min_dist):
    """list (one set per state) of twins: identical columns, |j-k|>min_dist."""
    R = np.ascontiguousarray(np.asarray(R).T)       # rows = columns of R
    n = R.shape[0]
    groups = {}
    for j in range(n):
        groups.setdefault(R[j].tobytes(), []).append(j)
    out = [set() for _ in range(n)]
    for g in groups.values():
        if len(g) < 2:
            continue
        ga = np.array(g)
        for j in g:
            sel = ga[np.abs(ga - j) > min_dist]
            if sel.size:
                out[j] = set(sel.tolist())
    return out


def twins_bruteforce(R, min_dist):
    """O(n^3) definition, used to cross-check twins_from_R on small n."""
    R = np.asarray(R)
    n = R.shape[0]
    return [{k for k in range(n) if abs(j - k) > min_dist and
             all(R[l, j] == R[l, k] for l in range(n))} for j in range(n)]


def transition_kind(k, k2, tw, n):
    """'succ' | 'jump' | 'restart' | None (illegal).  tw: set of twins of k."""
    if k2 == k + 1:
        return "succ"
    if (k2 - 1) in tw:
        return "jump"
    if k == n - 1 or (n - 1) in tw:
        return "restart"
    return None


def amp_spectrum(x):
    return np.abs(np.fft.rfft(np.asarray(x, dtype=float), axis=-1))


def band(n):
    """indices of the non-zero, non-Nyquist frequencies of a length-n rfft."""
    return np.arange(1, int(np.ceil(n / 2.0)))


def is_row_permutation(a, b):
    a = np.asarray(a)
    b = np.asarray(b)
    return a.shape == b.shape and bool(
        np.array_equal(np.sort(a, axis=1), np.sort(b, axis=1)))
