"""Kirchhoff reference for resistor (impedance) networks.  No pyunicorn import.

A network is given by a symmetric N x N matrix ``r`` of link resistances
(complex impedances allowed); ``r[i, j] == 0`` means "no link".  Everything
is evaluated in float64 / complex128 from first principles:

* potentials for a unit current s -> t come from a *grounded Laplacian*
  solve (row/column t deleted, V_t = 0) -- no pseudo-inverse involved;
* effective resistance ER(s, t) = V_s - V_t of that solve;
* current-flow betweennesses are the defining double sums over all source /
  sink pairs of the link currents ``Y_ij (V_i - V_j)``;
* admittive degree / clustering are the sums written in the docstrings of
  ``pyunicorn.core.resistive_network.ResNetwork``.

Conventions that the library documents and that are *adopted* here (the
docstrings leave them open, the documented example values fix them):

* vertex current-flow betweenness: source/sink pairs that contain the node
  itself contribute ``endpoint`` (default 0.0 -- reproduces the documented
  0.389 / 0.044 of the 5-node example; the literal formula would give 1/2,
  Newman's convention 1);
* admittive clustering of a node of degree 1 is 0.
"""
from fractions import Fraction
import itertools

import numpy as np

U32 = 2.0 ** -24          # unit round-off of IEEE binary32


# --------------------------------------------------------------------------
# basic matrices
# --------------------------------------------------------------------------
def admittance(r):
    r = np.asarray(r)
    cplx = np.iscomplexobj(r)
    Y = np.zeros(r.shape, dtype=complex if cplx else float)
    nz = r != 0
    Y[nz] = 1.0 / r[nz]
    return Y


def links(r):
    r = np.asarray(r)
    n = len(r)
    return [(i, j) for i in range(n) for j in range(i + 1, n) if r[i, j] != 0]


def laplacian(Y):
    return np.diag(Y.sum(axis=1)) - Y


def is_connected(r):
    r = np.asarray(r)
    n = len(r)
    seen = {0}
    stack = [0]
    while stack:
        v = stack.pop()
        for u in range(n):
            if r[v, u] != 0 and u not in seen:
                seen.add(u)
                stack.append(u)
    return len(seen) == n


# --------------------------------------------------------------------------
# potentials and effective resistance by grounded solves
# --------------------------------------------------------------------------
def grounded_inverse(r, ground):
    """inverse of the Laplacian with row/column `ground` removed, embedded
    back into an N x N matrix whose `ground` row/column is zero:
    G[i, s] = potential of i when a unit current enters at s and leaves at
    `ground` (V_ground = 0)."""
    Y = admittance(r)
    L = laplacian(Y)
    n = len(L)
    keep = [k for k in range(n) if k != ground]
    Lg = L[np.ix_(keep, keep)]
    Gi = np.linalg.solve(Lg, np.eye(n - 1, dtype=Lg.dtype))
    G = np.zeros((n, n), dtype=Lg.dtype)
    G[np.ix_(keep, keep)] = Gi
    return G


def potentials(r, s, t):
    """node potentials for unit current injected at s, extracted at t;
    V_t = 0."""
    return grounded_inverse(r, t)[:, s]


def effective_resistance_matrix(r):
    """ER[a, b] for all pairs, each column pair from the solve grounded at
    the last node: ER(a,b) = G_aa + G_bb - 2 G_ab."""
    n = len(r)
    G = grounded_inverse(r, n - 1)
    d = np.diag(G)
    ER = d[:, None] + d[None, :] - G - G.T
    ER[np.diag_indices(n)] = 0
    return ER


def effective_resistance_exact(r):
    """exact rational effective resistances (real input only): Gauss-Jordan
    in Fractions on the grounded Laplacian.  Used to calibrate the float
    reference on small circuits."""
    r = np.asarray(r, dtype=float)
    n = len(r)
    Y = [[(1 / Fraction(float(r[i, j]))) if r[i, j] != 0 else Fraction(0)
          for j in range(n)] for i in range(n)]
    L = [[(sum(Y[i]) if i == j else -Y[i][j]) for j in range(n)]
         for i in range(n)]
    m = n - 1
    M = [L[i][:m] + [Fraction(int(i == j)) for j in range(m)]
         for i in range(m)]
    for c in range(m):
        p = next(k for k in range(c, m) if M[k][c] != 0)
        M[c], M[p] = M[p], M[c]
        pv = M[c][c]
        M[c] = [v / pv for v in M[c]]
        for k in range(m):
            if k != c and M[k][c] != 0:
                f = M[k][c]
                M[k] = [a - f * b for a, b in zip(M[k], M[c])]
    G = [[Fraction(0)] * n for _ in range(n)]
    for i in range(m):
        for j in range(m):
            G[i][j] = M[i][m + j]
    return [[(G[a][a] + G[b][b] - G[a][b] - G[b][a]) if a != b
             else Fraction(0) for b in range(n)] for a in range(n)]


def pseudo_inverse(r):
    """Moore-Penrose inverse of the admittance Laplacian of a connected
    network, via (L + J/N)^-1 - J/N (no SVD)."""
    #  pinv(L(c r)) = c pinv(L(r)): work in units of the typical link
    #  resistance, otherwise the null-mode part J/N (size 1/N) swamps the
    #  wanted entries (size ~ resistance) in the subtraction below
    r = np.asarray(r)
    nz = np.abs(r[r != 0])
    unit = float(np.median(nz)) if nz.size else 1.0
    L = laplacian(admittance(r / unit))
    n = len(L)
    J = np.full((n, n), 1.0 / n)
    return (np.linalg.inv(L + J) - J) * unit


def shortest_path_resistance(r):
    """Floyd-Warshall on the (real, positive) link resistances."""
    r = np.asarray(r, dtype=float)
    n = len(r)
    D = np.where(r != 0, r, np.inf)
    np.fill_diagonal(D, 0.0)
    for k in range(n):
        D = np.minimum(D, D[:, k][:, None] + D[k, :][None, :])
    return D


# --------------------------------------------------------------------------
# aggregate effective-resistance measures
# --------------------------------------------------------------------------
def average_effective_resistance(ER):
    n = len(ER)
    tot = 0
    for i in range(n):
        for j in range(i):
            tot = tot + ER[i, j]
    return 2 * tot / (n * (n - 1))


def diameter_effective_resistance(ER):
    n = len(ER)
    return max(ER[i, j] for i in range(n) for j in range(i))


def er_closeness(ER, a):
    n = len(ER)
    return (n - 1) / sum(ER[a, i] for i in range(n))


def foster_sum(r, ER):
    return sum(ER[i, j] / r[i, j] for i, j in links(r))


# --------------------------------------------------------------------------
# current-flow betweenness: defining double sums
# --------------------------------------------------------------------------
def _all_potentials(r):
    """V[t][:, s] = potentials for unit current s -> t."""
    return [grounded_inverse(r, t) for t in range(len(r))]


def vertex_current_flow_betweenness(r, endpoint=0.0):
    """VCFB_i = 2/(n(n-1)) sum_{s<t} I_i^{st},
    I_i^{st} = 1/2 sum_j Y_ij |V_i - V_j| for i not in {s,t},
    I_i^{st} = `endpoint` for i in {s,t}."""
    Y = admittance(r).real.astype(float)
    n = len(Y)
    G = _all_potentials(r)
    out = np.zeros(n)
    for i in range(n):
        acc = 0.0
        for t in range(n):
            for s in range(t):
                if i in (s, t):
                    acc += endpoint
                    continue
                V = G[t][:, s]
                acc += 0.5 * sum(Y[i, j] * abs(V[i] - V[j])
                                 for j in range(n))
        out[i] = 2.0 * acc / (n * (n - 1))
    return out


def vertex_current_flow_betweenness_nodes(r, nodes, endpoint=0.0):
    """The same sum for a few nodes of a large network, vectorised over the
    sources (O(n^3) per node)."""
    Y = admittance(r).real.astype(float)
    n = len(Y)
    G = _all_potentials(r)
    out = {}
    for i in nodes:
        acc = 0.0
        for t in range(n):
            if t == i or t == 0:
                # (pairs s < t with i == t carry the end-point value)
                acc += endpoint * t if t == i else 0.0
                continue
            V = G[t][:, :t]                        # columns s < t
            term = 0.5 * (Y[i][:, None] * np.abs(V[i][None, :] - V)).sum(0)
            if i < t:
                term[i] = endpoint                 # s == i
            acc += float(term.sum())
        out[i] = 2.0 * acc / (n * (n - 1))
    return out


def edge_current_flow_betweenness(r):
    """ECFB_ij = 2/(n(n-1)) sum_{s<t} Y_ij |V_i - V_j|  (all pairs)."""
    Y = admittance(r).real.astype(float)
    n = len(Y)
    G = _all_potentials(r)
    out = np.zeros((n, n))
    for t in range(n):
        for s in range(t):
            V = G[t][:, s]
            out += Y * np.abs(V[:, None] - V[None, :])
    return 2.0 * out / (n * (n - 1))


def float32_input_bounds(r):
    """A-priori forward bounds for evaluating the two betweenness sums on
    binary32 copies of admittance and pseudo-inverse with the potential
    differences formed in binary32 (what the compiled kernels do), all
    accumulation in binary64:

      each R entry carries relative error u, each of the two binary32
      subtractions another u of its result, the admittance another u:
      |err(term)| <= 3u * Y_ij * (|R_is|+|R_js|+|R_jt|+|R_it|)   (+O(u^2))

    Returns (bound_vertex[n], bound_edge[n, n])."""
    Y = np.abs(admittance(r).real.astype(float))
    R = np.abs(pseudo_inverse(r).real.astype(float))
    n = len(Y)
    bv = np.zeros(n)
    be = np.zeros((n, n))
    for t in range(n):
        for s in range(t):
            Q = (R[:, s][:, None] + R[:, s][None, :] +
                 R[:, t][None, :] + R[:, t][:, None])
            T = 3.03 * U32 * Y * Q
            be += T
            row = 0.5 * T.sum(axis=1)
            row[s] = row[t] = 0.0
            bv += row
    c = 2.0 / (n * (n - 1))
    return c * bv, c * be


# --------------------------------------------------------------------------
# admittive degree / clustering: sums of the docstrings
# --------------------------------------------------------------------------
def admittive_degree(r):
    Y = admittance(r)
    n = len(Y)
    return np.array([sum(Y[i, j] for j in range(n)) for i in range(n)])


def degree(r):
    r = np.asarray(r)
    return np.array([(r[i] != 0).sum() for i in range(len(r))])


def average_neighbors_admittive_degree_real(r):
    """(sum over neighbours j of ad_j) / ad_i -- the library's documented
    example values follow this; real resistances only."""
    ad = admittive_degree(r)
    n = len(ad)
    r = np.asarray(r)
    return np.array([sum(ad[j] for j in range(n) if r[i, j] != 0) / ad[i]
                     for i in range(n)])


def local_admittive_clustering(r):
    """ac_i = sum_{j,k} Y_ij Y_ik Y_jk / (ad_i (d_i - 1)),  0 if d_i == 1."""
    Y = admittance(r)
    n = len(Y)
    ad = admittive_degree(r)
    d = degree(r)
    out = np.zeros(n, dtype=Y.dtype)
    for i in range(n):
        if d[i] == 1:
            continue
        acc = 0
        for j, k in itertools.product(range(n), repeat=2):
            acc = acc + Y[i, j] * Y[i, k] * Y[j, k]
        out[i] = acc / (ad[i] * (d[i] - 1))
    return out


def global_admittive_clustering(r):
    ac = local_admittive_clustering(r)
    return sum(ac) / len(ac)


# --------------------------------------------------------------------------
# textbook circuits (closed forms) -- used to sanity-check this module and
# as structured workload
# --------------------------------------------------------------------------
def _sym(n, entries, dtype=float):
    r = np.zeros((n, n), dtype=dtype)
    for (i, j), v in entries.items():
        r[i, j] = r[j, i] = v
    return r


def series_chain(rs):
    """path 0-1-...-n with link resistances rs; ER(a,b)=sum rs[a:b]."""
    rs = list(rs)
    n = len(rs) + 1
    dt = complex if any(isinstance(v, complex) for v in rs) else float
    r = _sym(n, {(k, k + 1): rs[k] for k in range(n - 1)}, dt)
    ER = np.zeros((n, n), dtype=dt)
    for a in range(n):
        for b in range(a + 1, n):
            ER[a, b] = ER[b, a] = sum(rs[a:b])
    return r, ER


def parallel_bundle(branches, direct=None):
    """terminals 0 and 1; branch k is the 2-hop path 0 - (2+k) - 1 with
    resistances (p_k, q_k); optional direct link 0-1.  Returns the matrix
    and ER(0,1) = 1 / (sum_k 1/(p_k+q_k) [+ 1/direct])."""
    m = len(branches)
    flat = [v for b in branches for v in b] + ([direct] if direct else [])
    dt = complex if any(isinstance(v, complex) for v in flat) else float
    e = {}
    g = 0
    for k, (p, q) in enumerate(branches):
        e[(0, 2 + k)] = p
        e[(1, 2 + k)] = q
        g = g + 1 / (p + q)
    if direct:
        e[(0, 1)] = direct
        g = g + 1 / direct
    return _sym(m + 2, e, dt), 1 / g


def star(rs):
    """hub 0, leaves 1..n; ER(hub,i)=r_i, ER(i,j)=r_i+r_j."""
    rs = list(rs)
    n = len(rs) + 1
    dt = complex if any(isinstance(v, complex) for v in rs) else float
    r = _sym(n, {(0, k + 1): rs[k] for k in range(n - 1)}, dt)
    ER = np.zeros((n, n), dtype=dt)
    for a in range(1, n):
        ER[0, a] = ER[a, 0] = rs[a - 1]
        for b in range(a + 1, n):
            ER[a, b] = ER[b, a] = rs[a - 1] + rs[b - 1]
    return r, ER


def clique(n, rho):
    """equal resistance rho on every link: ER = 2 rho / n."""
    dt = complex if isinstance(rho, complex) else float
    r = _sym(n, {(i, j): rho for i in range(n) for j in range(i + 1, n)}, dt)
    ER = np.full((n, n), 2 * rho / n, dtype=dt)
    np.fill_diagonal(ER, 0)
    return r, ER


def cycle(rs):
    """ring 0-1-...-(n-1)-0, rs[k] on link (k, k+1 mod n):
    ER(a,b) = P (T-P) / T with P the resistance of one arc, T the total."""
    rs = list(rs)
    n = len(rs)
    dt = complex if any(isinstance(v, complex) for v in rs) else float
    r = _sym(n, {(k, (k + 1) % n): rs[k] for k in range(n)}, dt)
    T = sum(rs)
    ER = np.zeros((n, n), dtype=dt)
    for a in range(n):
        for b in range(a + 1, n):
            P = sum(rs[a:b])
            ER[a, b] = ER[b, a] = P * (T - P) / T
    return r, ER


def ladder(k, rail, rung):
    """2 x k ladder: nodes i (top) and k+i (bottom)."""
    e = {}
    for i in range(k - 1):
        e[(i, i + 1)] = rail
        e[(k + i, k + i + 1)] = rail
    for i in range(k):
        e[(i, k + i)] = rung
    dt = complex if isinstance(rail, complex) or isinstance(rung, complex) \
        else float
    return _sym(2 * k, e, dt)


def wheel(n_rim, spoke, rim):
    """hub 0, rim nodes 1..n_rim."""
    e = {}
    for i in range(1, n_rim + 1):
        e[(0, i)] = spoke
        e[(i, i % n_rim + 1)] = rim
    dt = complex if isinstance(spoke, complex) or isinstance(rim, complex) \
        else float
    return _sym(n_rim + 1, e, dt)


def selftest():
    """returns a list of failures of this module against closed forms and
    the exact rational solve (empty list = reference trusted)."""
    bad = []

    def close(a, b, what, tol=1e-12):
        a = np.asarray(a, dtype=complex)
        b = np.asarray(b, dtype=complex)
        if not np.all(np.abs(a - b) <= tol * np.maximum(1e-300, np.abs(b))
                      + 0):
            bad.append(what)

    r, ER = series_chain([1.0, 2.5, 0.25, 40.0])
    close(effective_resistance_matrix(r), ER, "series")
    r, z = parallel_bundle([(1.0, 2.0), (0.5, 0.5), (3.0, 7.0)], direct=4.0)
    close(effective_resistance_matrix(r)[0, 1], z, "parallel")
    r, ER = star([1.0, 2.0, 3.0, 0.01])
    close(effective_resistance_matrix(r), ER, "star")
    r, ER = clique(6, 3.0)
    close(effective_resistance_matrix(r), ER, "clique")
    r, ER = cycle([1.0, 2.0, 3.0, 4.0, 0.5])
    close(effective_resistance_matrix(r), ER, "cycle")
    r, z = parallel_bundle([(1 + 2j, 2 - 1j), (0.5 + 0j, 0.5j + 0.1)])
    close(effective_resistance_matrix(r)[0, 1], z, "parallel-complex")
    # exact rational solve on an irregular circuit
    r = wheel(5, 0.3, 7.0)
    r[1, 3] = r[3, 1] = 0.02
    ex = np.array([[float(v) for v in row]
                   for row in effective_resistance_exact(r)])
    close(effective_resistance_matrix(r), ex, "exact-wheel", 1e-11)
    # pseudo inverse reproduces the same effective resistances
    R = pseudo_inverse(r)
    d = np.diag(R)
    close(d[:, None] + d[None, :] - R - R.T + np.eye(len(r)),
          ex + np.eye(len(r)), "pinv-wheel", 1e-10)
    # Foster
    close(foster_sum(r, ex), len(r) - 1, "foster", 1e-11)
    # documented example values of the 5-node test network
    t = _sym(5, {(0, 1): 2., (1, 2): 8., (1, 3): 2., (2, 3): 8.,
                 (3, 4): 10.})
    v = vertex_current_flow_betweenness(t)
    if not (abs(v[1] - 0.389) < 6e-4 and abs(v[2] - 0.044) < 6e-4):
        bad.append("vcfb-doc-example")
    e = edge_current_flow_betweenness(t)
    doc = np.array([[0, .4, 0, 0, 0], [.4, 0, .2444, .5333, 0],
                    [0, .2444, 0, .2444, 0], [0, .5333, .2444, 0, .4],
                    [0, 0, 0, .4, 0]])
    if np.abs(e - doc).max() > 6e-5:
        bad.append("ecfb-doc-example")
    ac = local_admittive_clustering(t)
    if np.abs(ac - [0, 0.00694444, 0.0625, 0.01077586, 0]).max() > 1e-8:
        bad.append("ac-doc-example")
    an = average_neighbors_admittive_degree_real(t)
    if np.abs(an - [2.25, 1.31111111, 7.4, 2.03448276, 7.25]).max() > 1e-8:
        bad.append("anad-doc-example")
    ERt = effective_resistance_matrix(t)
    if abs(er_closeness(ERt, 0) - 0.154) > 6e-4 or \
            abs(er_closeness(ERt, 4) - 0.080) > 6e-4 or \
            abs(average_effective_resistance(ERt) - 7.28889) > 6e-6 or \
            abs(diameter_effective_resistance(ERt) - 14.444) > 6e-4:
        bad.append("er-doc-example")
    # Kirchhoff current law for the potentials: net current zero at
    # interior nodes, +1/-1 at the terminals
    Y = admittance(r)
    V = potentials(r, 2, 4)
    net = (Y * (V[:, None] - V[None, :])).sum(axis=1)
    exp = np.zeros(len(r))
    exp[2], exp[4] = 1, -1
    if np.abs(net - exp).max() > 1e-10:
        bad.append("kcl")
    return bad
