"""Graph generators: complete enumeration of small labelled graphs, seeded
random graphs, structured families.  Adjacency matrices are int8 numpy arrays
with empty diagonal."""
import itertools

import numpy as np


def all_undirected(n):
    pairs = list(itertools.combinations(range(n), 2))
    for bits in range(1 << len(pairs)):
        A = np.zeros((n, n), dtype=np.int8)
        for b, (i, j) in enumerate(pairs):
            if bits >> b & 1:
                A[i, j] = A[j, i] = 1
        yield A


def all_directed(n):
    pairs = [(i, j) for i in range(n) for j in range(n) if i != j]
    for bits in range(1 << len(pairs)):
        A = np.zeros((n, n), dtype=np.int8)
        for b, (i, j) in enumerate(pairs):
            if bits >> b & 1:
                A[i, j] = 1
        yield A


def count_undirected(n):
    return 1 << (n * (n - 1) // 2)


def nth_undirected(n, bits):
    pairs = list(itertools.combinations(range(n), 2))
    A = np.zeros((n, n), dtype=np.int8)
    for b, (i, j) in enumerate(pairs):
        if bits >> b & 1:
            A[i, j] = A[j, i] = 1
    return A


def nth_directed(n, bits):
    pairs = [(i, j) for i in range(n) for j in range(n) if i != j]
    A = np.zeros((n, n), dtype=np.int8)
    for b, (i, j) in enumerate(pairs):
        if bits >> b & 1:
            A[i, j] = 1
    return A


def gnp(rng, n, p, directed=False):
    R = rng.random((n, n)) < p
    if directed:
        A = R.astype(np.int8)
    else:
        A = np.triu(R, 1)
        A = (A | A.T).astype(np.int8)
    np.fill_diagonal(A, 0)
    return A


def random_graph(rng, nmin=6, nmax=20, directed=False):
    n = int(rng.integers(nmin, nmax + 1))
    p = float(rng.choice([0.0, 0.1, 0.2, 0.3, 0.5, 0.7, 0.9, 1.0],
                         p=[.03, .17, .2, .2, .2, .1, .07, .03]))
    return gnp(rng, n, p, directed)


def connected(A):
    n = len(A)
    if n == 0:
        return True
    S = ((A + A.T) > 0)
    seen = {0}
    stack = [0]
    while stack:
        v = stack.pop()
        for u in np.nonzero(S[v])[0]:
            if int(u) not in seen:
                seen.add(int(u))
                stack.append(int(u))
    return len(seen) == n


def random_connected(rng, nmin=4, nmax=15, directed=False, extra_p=None):
    """Random spanning tree plus G(n,p) links (symmetric closure connected)."""
    n = int(rng.integers(nmin, nmax + 1))
    A = np.zeros((n, n), dtype=np.int8)
    perm = rng.permutation(n)
    for k in range(1, n):
        j = perm[int(rng.integers(0, k))]
        i = perm[k]
        if directed and rng.random() < 0.5:
            A[i, j] = 1
            if rng.random() < 0.5:
                A[j, i] = 1
        else:
            A[i, j] = 1
            if not directed or rng.random() < 0.5:
                A[j, i] = 1
    p = extra_p if extra_p is not None else float(rng.choice(
        [0.0, 0.1, 0.3, 0.6, 1.0]))
    A = (A | gnp(rng, n, p, directed)).astype(np.int8)
    if not directed:
        A = (A | A.T).astype(np.int8)
    np.fill_diagonal(A, 0)
    return A


def _sym(n, edges):
    A = np.zeros((n, n), dtype=np.int8)
    for i, j in edges:
        A[i, j] = A[j, i] = 1
    return A


def families():
    """Structured graphs chosen for known blind spots."""
    out = {}
    for n in (2, 3, 5, 8):
        out[f"path{n}"] = _sym(n, [(i, i + 1) for i in range(n - 1)])
    for n in (3, 4, 7):
        out[f"cycle{n}"] = _sym(n, [(i, (i + 1) % n) for i in range(n)])
    for n in (4, 7):
        out[f"star{n}"] = _sym(n, [(0, i) for i in range(1, n)])
    for n in (3, 4, 5, 6, 7):
        out[f"clique{n}"] = _sym(n, itertools.combinations(range(n), 2))
    for a, b in ((2, 3), (3, 3), (2, 5)):
        out[f"K{a}_{b}"] = _sym(a + b, [(i, a + j) for i in range(a)
                                        for j in range(b)])
    # two cliques and a bridge
    e = list(itertools.combinations(range(4), 2))
    e += [(4 + i, 4 + j) for i, j in itertools.combinations(range(4), 2)]
    out["barbell4"] = _sym(8, e + [(3, 4)])
    # disjoint union with isolated nodes
    out["union_iso"] = _sym(9, [(0, 1), (1, 2), (2, 0), (3, 4), (5, 6),
                                (6, 7)])
    # ladder and grid, hypercube (path multiplicities > 2)
    out["ladder4"] = _sym(8, [(i, i + 1) for i in range(3)] +
                          [(4 + i, 5 + i) for i in range(3)] +
                          [(i, i + 4) for i in range(4)])
    g = []
    for r in range(3):
        for c in range(3):
            if c < 2:
                g.append((3 * r + c, 3 * r + c + 1))
            if r < 2:
                g.append((3 * r + c, 3 * r + c + 3))
    out["grid3x3"] = _sym(9, g)
    h = [(i, i ^ (1 << b)) for i in range(8) for b in range(3)
         if i < i ^ (1 << b)]
    out["cube3"] = _sym(8, h)
    h4 = [(i, i ^ (1 << b)) for i in range(16) for b in range(4)
          if i < i ^ (1 << b)]
    out["cube4"] = _sym(16, h4)
    # clique with pendant + wheel (degree >= 4 nodes for cliquishness 4/5)
    out["wheel6"] = _sym(7, [(0, i) for i in range(1, 7)] +
                         [(i, i % 6 + 1) for i in range(1, 7)])
    out["k5pend"] = _sym(7, list(itertools.combinations(range(5), 2)) +
                         [(0, 5), (5, 6)])
    out["empty4"] = _sym(4, [])
    out["single_link5"] = _sym(5, [(1, 3)])
    return out


def pos_weights(rng, n, kind=None):
    kind = kind or rng.choice(["loguni", "equal", "unit", "ints"])
    if kind == "loguni":
        return np.exp(rng.uniform(np.log(1e-2), np.log(1e2), n))
    if kind == "equal":
        return np.full(n, float(rng.uniform(0.1, 5)))
    if kind == "unit":
        return np.ones(n)
    return rng.integers(1, 6, n).astype(float)


def link_attr(rng, A, directed=False, ties=False):
    n = len(A)
    if ties:
        W = rng.integers(1, 4, (n, n)).astype(float)
    else:
        W = rng.uniform(0.2, 3.0, (n, n))
    if not directed:
        W = np.triu(W, 1)
        W = W + W.T
    W = W * (A != 0)
    return W


def canon_key(A):
    return A.shape[0], np.packbits(A.astype(bool)).tobytes()
