"""Value-preserving variations of how a caller may hold an input array:
memory layout (C / Fortran order, strided view of a larger buffer, read-only),
container (ndarray / nested list) and numeric type (float32 or integer when
every value is exactly representable).  The reference oracles see the same
numbers; only the representation handed to the library changes."""
import numpy as np

FORMS = ("c", "c", "c", "f", "view", "readonly", "list", "f4", "int")


def as_held(r, a, forms=FORMS, allow_list=True):
    """-> (object to pass to the library, tag).  `a` is never modified."""
    a = np.asarray(a)
    form = str(forms[int(r.integers(0, len(forms)))])
    if form == "f" and a.ndim >= 2:
        return np.asfortranarray(a.copy()), "fortran"
    if form == "view" and a.ndim == 2 and a.size and a.dtype.kind in "fiub":
        k = int(r.integers(0, 3))
        fill = 77 if a.dtype.itemsize == 1 else -12345
        if k == 1:
            # a window of longer records: rows contiguous but not packed
            big = np.full((a.shape[0], a.shape[1] + 3), fill, dtype=a.dtype)
            big[:, 1:1 + a.shape[1]] = a
            v = big[:, 1:1 + a.shape[1]]
            return v, "row-pitch-view"
        if k == 2:
            # every second row of a larger ensemble
            big = np.full((2 * a.shape[0], a.shape[1]), fill, dtype=a.dtype)
            big[::2] = a
            return big[::2], "row-skip-view"
    if form == "view" and a.ndim >= 1 and a.size:
        # every second element of a larger buffer along each axis
        big = np.zeros(tuple(2 * s for s in a.shape), dtype=a.dtype)
        sl = tuple(slice(None, None, 2) for _ in a.shape)
        if a.dtype.kind in "fiu":
            big[...] = -12345 if a.dtype.itemsize > 1 else 77
        big[sl] = a
        v = big[sl]
        assert not v.flags.c_contiguous or a.size <= 1
        return v, "strided-view"
    if form == "readonly":
        b = a.copy()
        b.setflags(write=False)
        return b, "readonly"
    if form == "list" and allow_list:
        return a.tolist(), "list"
    if form == "f4" and a.dtype.kind == "f":
        b = a.astype(np.float32)
        with np.errstate(invalid="ignore"):
            if np.array_equal(b.astype(a.dtype), a, equal_nan=True):
                return b, "float32"
    if form == "int" and a.dtype.kind == "f" and a.size and \
            np.all(np.isfinite(a)) and np.all(a == np.round(a)) and \
            np.abs(a).max() < 2 ** 31:
        return a.astype(np.int64), "int64"
    return a.copy(), "c"


def as_flag(r, v):
    """A truth value in a type a caller may hold it in: the Python bool (two
    of five), a NumPy bool (element of a flag array, result of a comparison
    on arrays), or 0 / 1 as Python or NumPy integer.  Same truth value."""
    t = (bool, bool, np.bool_, int, np.int64)[int(r.integers(0, 5))]
    return t(bool(v))
