"""Builders for library objects from plain arrays (imports pyunicorn lazily).
All constructors are silenced."""
import numpy as np


def geogrid(lats, lons, T=1, times=None):
    from pyunicorn.core import GeoGrid
    lats = np.asarray(lats, dtype=float)
    lons = np.asarray(lons, dtype=float)
    t = np.arange(T, dtype=float) if times is None else np.asarray(times)
    return GeoGrid(time_seq=t, lat_seq=lats, lon_seq=lons, silence_level=3)


def grid(space, T=1):
    """space: (dim, N) coordinates."""
    from pyunicorn.core import Grid
    return Grid(time_seq=np.arange(T, dtype=float),
                space_seq=np.asarray(space, dtype=float), silence_level=3)


def random_latlon(rng, n, hostile=False):
    lat = rng.uniform(-85, 85, n)
    lon = rng.uniform(-180, 180, n)
    if hostile:
        k = rng.integers(0, n, max(1, n // 3))
        lat[k] = rng.choice([-90, 90, 0, 45], len(k))
        lon[k] = rng.choice([-180, 180, 0, 360, 90], len(k))
    return lat, lon


def climate_data(obs, lats, lons, cycle=12, anomalies=False, window=None,
                 times=None):
    from pyunicorn.climate import ClimateData
    obs = np.asarray(obs, dtype=float)
    g = geogrid(lats, lons, T=obs.shape[0], times=times)
    return ClimateData(observable=obs, grid=g, time_cycle=cycle,
                       anomalies=anomalies, window=window, silence_level=3)


def sym_similarity(rng, n, grid64=True, signed=True, diag_max=True):
    """Symmetric similarity matrix on the 1/64 grid (exact in float32)."""
    if grid64:
        S = rng.integers(-60 if signed else 0, 61, (n, n)) / 64.0
    else:
        S = rng.uniform(-1 if signed else 0, 1, (n, n))
    S = np.triu(S, 1)
    S = S + S.T
    if diag_max:
        np.fill_diagonal(S, 1.0)
    else:
        np.fill_diagonal(S, rng.integers(-60, 61, n) / 64.0)
    return S
