"""Regenerate /verif/MANIFEST.json from the META blocks of the check modules
(run:  /venv/bin/python -m pvm.manifest_gen)."""
import importlib
import json
import os

from pvm.build import VERIF

ALL = [f"C{i:02d}" for i in range(1, 21)]
NOT_APPLICABLE = {}   # id -> reason (kept current by hand)
# checks that are finished (silent on the unchanged tree on several seeds,
# self-tested with mutants); everything else is listed as not claimed
READY = [f"C{i:02d}" for i in range(1, 21)]


def technique(M):
    t = M.get("technique", "reference oracle over generated executions")
    if not t.startswith(("runtime monitoring", "compiler sanitizers")):
        t = "runtime monitoring: " + t
    return t


def main():
    checks = []
    na = []
    for pid in ALL:
        path = os.path.join(VERIF, "pvm", "checks", pid.lower() + ".py")
        if pid in NOT_APPLICABLE or pid not in READY or \
                not os.path.exists(path):
            na.append({"property_id": pid, "reason": NOT_APPLICABLE.get(
                pid, "check not built yet (work in progress); no claim made")})
            continue
        M = importlib.import_module("pvm.checks." + pid.lower()).META
        checks.append({
            "property_id": pid,
            "quick_cmd": f"./check {pid} --tier quick",
            "thorough_cmd": f"./check {pid} --tier thorough",
            "evidence_file": f"/verif/evidence/{pid}.json",
            "replay_cmd_template": f"./check {pid} --replay {{path}}",
            "engine": "pvm",
            "level_claimed": {
                "category": M.get("level", "exploration"),
                "text": M.get("level_text", M.get("rule", ""))[:1500],
                "design_ref": f"DESIGN.md §4 {pid}"},
            "level_note": M.get("level_note", "; ".join(
                M.get("assumptions", [])) or "see DESIGN.md"),
            "technique": technique(M),
        })
    man = {
        "version": 1,
        "setup_cmd": "/venv/bin/python -m pvm.build plain && "
                     "/venv/bin/python -m pvm.build asanrec",
        "hooks": {
            "guard": "PYUNICORN_VERIF",
            "enable": "no source hooks: monitors attach from the harness "
                      "(sys.meta_path wrapper around pyunicorn.core.cache, "
                      "method wrappers, module-global mpi stand-in, "
                      "ASan/UBSan rebuild); ./check sets PYUNICORN_VERIF=1 "
                      "for its children only",
            "baseline_off_cmd": "cd /repo && /venv/bin/python -m pytest -ra "
                                "-q -p no:cacheprovider --timeout=900 "
                                "--continue-on-collection-errors",
            "source_commits": [],
            "add_only": True},
        "engines": [{
            "name": "pvm", "path": "/verif/pvm",
            "serves_properties": [c["property_id"] for c in checks],
            "kind_free_text": "runtime monitors, reference/metamorphic "
                              "oracles over generated executions of a "
                              "scratch rebuild of /repo's working tree; "
                              "ASan/UBSan build for the kernels"}],
        "checks": checks,
        "not_applicable": na,
        "notes": "Every check rebuilds /repo's working tree (content-hash "
                 "keyed) into /verif/.cache and runs shards in subprocesses. "
                 "Exit 0 held / 1 VIOLATION / 2 INCONCLUSIVE. Known findings "
                 "and fix: commits are listed in /verif/known_findings.json."}
    with open(os.path.join(VERIF, "MANIFEST.json"), "w") as fh:
        json.dump(man, fh, indent=1)
    print(f"{len(checks)} checks, {len(na)} not claimed")


if __name__ == "__main__":
    main()
