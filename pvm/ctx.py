"""Shard-side context: counters, events, samples, watchdog.  Imported by the
check modules inside the child processes (never imports pyunicorn itself)."""
import contextlib
import hashlib
import io
import json
import os
import signal
import time
import traceback

import numpy as np


class CaseTimeout(Exception):
    pass


def jsonable(o, depth=0):
    if depth > 6:
        return repr(o)[:200]
    if isinstance(o, (str, bool, type(None))):
        return o
    if isinstance(o, (int, np.integer)):
        return int(o)
    if isinstance(o, (float, np.floating)):
        f = float(o)
        return f if np.isfinite(f) else repr(f)
    if isinstance(o, complex):
        return repr(o)
    if isinstance(o, np.ndarray):
        if o.size > 400:
            return {"shape": list(o.shape), "dtype": str(o.dtype),
                    "head": jsonable(o.ravel()[:20].tolist(), depth + 1)}
        return jsonable(o.tolist(), depth + 1)
    if isinstance(o, dict):
        return {str(k): jsonable(v, depth + 1) for k, v in o.items()}
    if isinstance(o, (list, tuple, set, frozenset)):
        return [jsonable(v, depth + 1) for v in o]
    return repr(o)[:200]


def short_hash(key):
    if not isinstance(key, (bytes, str)):
        key = json.dumps(jsonable(key), sort_keys=True)
    if isinstance(key, str):
        key = key.encode()
    return hashlib.blake2b(key, digest_size=8).hexdigest()


class Ctx:
    MAX_DETAILS = 3
    MAX_SAMPLES = 4

    def __init__(self, prop, tier, seed, shard, nshards, only_case=None):
        self.prop = prop
        self.tier = tier
        self.thorough = tier == "thorough"
        self.seed = int(seed)
        self.shard = shard
        self.nshards = nshards
        self.only_case = only_case
        self.evaluations = 0
        self.nontriv = set()
        self.counters = {}
        self.maxima = {}
        self.events = {}          # sig -> {"count":n, "details":[...]}
        self.samples = []
        self.timeouts = 0
        self.notes = {}
        self.t0 = time.time()
        self._case_counter = 0
        self.deadline = None          # wall-clock watchdog of the budget
        self.cpu_budget = None        # the budget itself: CPU seconds
        self.cpu0 = time.process_time()
        self.resume_after = None      # skip cases up to and including this id
        self._resuming = False
        self.progress_path = None
        self.checkpoint_path = None
        self._last_ckpt = 0.0
        self.ckpt_interval = 1.0

    # -- partitioning -----------------------------------------------------
    def mine(self, i):
        return i % self.nshards == self.shard

    def want(self, case_id):
        return self.only_case is None or str(case_id) == str(self.only_case)

    def start(self, case_id):
        """Case gate for workloads that may kill the process (sanitizer
        runs): honours replay / resume filters, records the case id in the
        progress file *before* the case runs and checkpoints the counters."""
        cid = str(case_id)
        if self._resuming:
            if cid == str(self.resume_after):
                self._resuming = False
            return False
        if not self.want(cid):
            return False
        if self.checkpoint_path and time.time() - self._last_ckpt >= self.ckpt_interval:
            self.checkpoint()
        if self.progress_path:
            with open(self.progress_path, "w") as fh:
                fh.write(cid)
        return True

    def checkpoint(self):
        self._last_ckpt = time.time()
        d = self.dump()
        d["status"] = "checkpoint"
        d["error"] = None
        tmp = self.checkpoint_path + ".tmp"
        with open(tmp, "w") as fh:
            json.dump(d, fh)
        os.replace(tmp, self.checkpoint_path)

    def rng(self, *key):
        ks = [self.seed & 0xFFFFFFFF]
        for k in key:
            if isinstance(k, str):
                k = int(short_hash(k), 16) & 0xFFFFFFFF
            ks.append(int(k) & 0xFFFFFFFF)
        return np.random.default_rng(ks)

    def time_left(self):
        """Budget of the time-limited workload families.  It is counted in
        CPU seconds of this process, so that the amount of work done - and
        with it every coverage counter - does not depend on how loaded the
        machine is; a generous wall-clock watchdog (a multiple of the budget,
        well inside the run's timeout) ends the families on a machine that
        gives the process almost no CPU."""
        if self.deadline is None:
            return 1e9
        wall = self.deadline - time.time()
        if self.cpu_budget is None:
            return wall
        return min(wall, self.cpu_budget - (time.process_time() - self.cpu0))

    # -- counters ---------------------------------------------------------
    def evals(self, n=1):
        self.evaluations += n

    def nontrivial(self, key):
        self.nontriv.add(short_hash(key))

    def count(self, name, n=1):
        self.counters[name] = self.counters.get(name, 0) + n

    def maxstat(self, name, v):
        v = float(v)
        if not np.isfinite(v):
            return
        if name not in self.maxima or v > self.maxima[name]:
            self.maxima[name] = v

    def note(self, name, value):
        self.notes[name] = jsonable(value)

    def sample(self, obj, force=False):
        if force or len(self.samples) < self.MAX_SAMPLES:
            self.samples.append(jsonable(obj))

    # -- events -----------------------------------------------------------
    def violation(self, sig, detail=None, case_id=None):
        """Record that a monitor fired.  `sig` is the mechanism signature."""
        e = self.events.setdefault(sig, {"count": 0, "details": []})
        e["count"] += 1
        if len(e["details"]) < self.MAX_DETAILS:
            e["details"].append({
                "case_id": None if case_id is None else str(case_id),
                "shard": self.shard, "nshards": self.nshards,
                "tier": self.tier, "seed": self.seed,
                "detail": jsonable(detail)})

    # -- calling library code --------------------------------------------
    def call(self, fn, *a, **k):
        """Returns (True, value) or (False, exception).  Library stdout is
        swallowed.  CaseTimeout propagates."""
        try:
            with contextlib.redirect_stdout(io.StringIO()):
                return True, fn(*a, **k)
        except CaseTimeout:
            raise
        except Exception as e:      # noqa
            return False, e

    @contextlib.contextmanager
    def quiet(self):
        with contextlib.redirect_stdout(io.StringIO()):
            yield

    @contextlib.contextmanager
    def guard(self, seconds=20):
        """Per-case soft watchdog: a timeout is *not* a violation."""
        def handler(signum, frame):
            raise CaseTimeout()
        old = signal.signal(signal.SIGALRM, handler)
        signal.alarm(int(seconds))
        try:
            yield
        except CaseTimeout:
            self.timeouts += 1
        finally:
            signal.alarm(0)
            signal.signal(signal.SIGALRM, old)

    def dump(self):
        return {
            "prop": self.prop, "shard": self.shard,
            "evaluations": self.evaluations,
            "nontrivial": sorted(self.nontriv),
            "counters": self.counters, "maxima": self.maxima,
            "events": self.events, "samples": self.samples,
            "timeouts": self.timeouts, "notes": self.notes,
            "wall_s": time.time() - self.t0}


def exc_sig(e):
    return type(e).__name__


def fmt_exc(e):
    return "".join(traceback.format_exception_only(type(e), e)).strip()[:300]
